"""C15 — correlograms count exactly the spike pairs in each lag bin (DESIGN.md §5 C15)."""
import functools
import itertools
import json
import math
from fractions import Fraction
import numpy as np
from . import common as C
from . import dense_common as DC

PID = 'C15'
PARALLEL = False
BATCH = 3000
BUDGET_S = {'quick': 70, 'thorough': 900}
RULE = ('exhaustive: all sorted trains of length <= L on a small time grid (equal times included) x '
        'labelings over <= 3 clusters (and the labelings that USE 4 clusters: all of them for 4 spikes, one in 12 for 5) x '
        'cluster-id lists in every order incl. ids without spikes x '
        '(bin, half-window) grid x symmetrize on/off, windows that are odd, even and fractional multiples of the bin, '
        'bins that are a whole or a fractional number of samples, negative times; then random long trains; then '
        'ARBITRARY DOUBLES: decimal bins/windows (0.1/2, 0.05/1, 0.001/0.5, 0.002/0.1, ...) x rates 30000/25000/1000/10/... x '
        'spike times on the sample grid (fl(T/rate), dyadic) and off it (random, an ulp around a sample boundary), bins / '
        'windows an ulp around a whole number of samples / bins, clipped bins; the float model itself (op fl: '
        'roundDouble against float(Fraction) and against products / quotients of random doubles: ties, powers of two, '
        'tiny / huge magnitudes); the helpers _increment / _diff_shifted / _create_correlograms_array on small arrays; '
        'firing_rate with cluster_ids given or None, durations 0 / None / dyadic / non-dyadic; spike_clusters of every '
        'integer dtype (int8..int64, uint8..uint64), rate / bin / window as Python floats, np.float64, np.float32 scalars '
        '(float32 only where every operation is exact in float32 too) and a whole rate as a Python int. '
        'A bin that is NOT a whole number of samples (float product rate*bin fractional) is judged by the STATEMENT\'s own '
        'counts floor((t_b - t_a)/bin) with the caller\'s bin (Lean specSeconds). non-trivial = at '
        'least one spike pair inside the window (model array has a non-zero entry)')
ASSUMPTIONS = [
    'float -> sample conversion ((times*rate).astype(int64), int(rate*clip(bin)), 2*int(.5*clip(window)/clip(bin))+1) is '
    'MODELLED in Lean with IEEE-754 binary64 rounding (Model/Fl.lean roundDouble, Model/C15c.lean): the model gets the exact '
    'rational values of the doubles handed to the real code and returns the integers; NO exactness filter on the inputs. '
    'The rounding model itself is compared on every run with float(Fraction(p, q)) and with a*b, a/b of the float unit '
    '(Python scalars and NumPy arrays); a mismatch there is MACHINERY, never an alarm',
    'grading of a disagreement: the property quantifies over sample rates for which time*rate is exact, so a real output '
    'that differs from the sample-level pair counts of the model\'s integers is SPEC when every float product time*rate is '
    'a whole number and bin/window are inside the clipping interval, and CORR (real code differs from the model of the '
    'code) otherwise; inputs outside the normal range of binary64 (FlDom false) are never judged',
    'a bin that is not a whole number of samples (the float product rate*bin is fractional; the quantifier puts no condition on '
    'the bin): the real output is compared with the statement\'s own counts floor((t_b - t_a)/bin) for the CALLER\'s bin '
    '(Lean specSeconds, evaluated as stmtSeconds: theorem stmtSeconds_eq), read in seconds on the exact values of the doubles '
    'and in samples on the float products (theorem specSeconds_units: the same array when the products are exact; on decimal '
    'inputs the two can differ at a bin boundary by rounding noise). Equal to either reading: conform (CORR if it differs '
    'from the model of the code). Different from BOTH and equal to the model of the code, which counts with the truncated bin '
    'int(rate*bin) (theorem correlogramsQ_truncates): class bin_truncated_to_whole_samples = the open known finding. Different '
    'from all three: SPEC. The half window in bins is the code\'s winsize_bins // 2 (the statement does not define it from the '
    'window size)',
    'times BETWEEN two samples (product time*rate exact but not whole, e.g. a half-sample grid) are read as outside the '
    'quantifier ("spike trains on a small time grid", "sample rates for which time*rate is exact" = the product gives back the '
    'sample number): graded CORR against the model, which truncates toward zero like the code; how often the code then differs '
    'from the statement\'s counts is tallied only',
    'the count array of the code is int32, the model counts in unbounded naturals: theorem correlogramsArr_int32 shows that '
    'every count is below 2^31 for at most 65536 spikes; the generators stay below 400 spikes',
    'firing_rate: the model computes count_i*count_j*bin/duration as a rational; compared exactly when the two float '
    'operations of the code are exact on the input, with the DESIGN §3 tolerance 2^-40 (relative) otherwise',
]


def _prep(case):
    """-> (rate, spike times (float64 / float32 array), bin_size, window) exactly as handed to the real code"""
    r = float(case['rate'])
    if 'times' in case:
        # explicit doubles (JSON floats round-trip exactly through repr)
        times = np.array(case['times'], dtype=np.float64)
        bin_size, window = float(case['bin_size']), float(case['window'])
    else:
        # built from integers by FLOAT operations: sample numbers / rate, `bin` samples (optionally plus a fraction of a
        # sample: the code truncates rate*bin_size), window = (2*half+1) bins or another multiple `wmult` of the bin
        times = np.array(case['t'], dtype=np.int64) / r
        bin_size = (case['bin'] + case.get('binfrac', 0.)) / r
        window = case.get('wmult', 2 * case['half'] + 1) * bin_size
    if case.get('tdtype'):
        times = times.astype(case['tdtype'])         # e.g. float32 spike times (converted exactly to float64 by the code)
    bin_size, window = float(bin_size), float(window)
    if case.get('argkind') == 'np32' and _f32_safe(r, bin_size, window):
        # the VALUES handed over are those of the float32 scalars
        r, bin_size, window = (float(np.float32(x)) for x in (r, bin_size, window))
    return r, times, bin_size, window


def _is_f32(fr):
    with np.errstate(over='ignore'):
        v = np.float32(float(fr))
    return bool(np.isfinite(v)) and Fraction(float(v)) == fr


def _f32_safe(r, b, w):
    """np.float32 arguments make NumPy evaluate rate*bin and .5*window/bin in float32 or float64 depending on which
    of them are float32 (NEP 50); the model rounds to binary64.  Used only where every such operation is exact in
    float32 (then it is exact in both precisions and the model applies), away from the clipping bounds (the float32
    value of 1e-5 is another number)."""
    R, B, W = (Fraction(float(np.float32(x))) for x in (r, b, w))
    if not (R > 0 and Fraction(1, 10000) < B < 10000 and Fraction(1, 10000) < W < 10000):
        return False
    return _is_f32(R * B) and _is_f32(W / 2) and _is_f32(W / 2 / B)


def _wrap_args(case, r, bin_size, window):
    """rate / bin / window as the caller's scalar types"""
    k = case.get('argkind')
    if k == 'np64':
        return np.float64(r), np.float64(bin_size), np.float64(window)
    if k == 'np32' and _f32_safe(r, bin_size, window):
        which = case.get('arg32', 'rbw')
        return tuple(np.float32(x) if c in which else x for c, x in zip('rbw', (r, bin_size, window)))
    if k == 'intrate' and float(r).is_integer():
        return int(r), bin_size, window
    return r, bin_size, window


@functools.lru_cache(maxsize=1 << 16)
def _frac(x):
    return DC.frac(x)


def _is_float(fr):
    return Fraction(float(fr)) == fr


def _fl_operands(it):
    """exact rational operation of one item of an `fl` case"""
    k = it[0]
    if k == 'frac':
        return Fraction(it[1], it[2])
    a, b = Fraction(float.fromhex(it[1])), Fraction(float.fromhex(it[2]))
    return a * b if k == 'mul' else a / b


def impl(case):
    from phylib.stats.ccg import correlograms, firing_rate
    if case['op'] == 'ccg':
        r, times, bin_size, window = _prep(case)
        r, bin_size, window = _wrap_args(case, r, bin_size, window)
        base = case.get('idbase', 0)          # the same labelling with every cluster id shifted by a constant
        sc = np.array([c + base for c in case['sc']], dtype=getattr(np, case.get('dtype', 'int64')))
        ids = case.get('ids')
        if ids is not None:
            ids = [c + base for c in ids]
            if case.get('idskind') == 'array':
                ids = np.array(ids, dtype=np.int64)
            elif case.get('idskind') == 'array32':
                ids = np.array(ids, dtype=np.int32)
            elif case.get('idskind') == 'tuple':
                ids = tuple(ids)
            elif case.get('idskind') == 'range' and ids == list(range(ids[0], ids[0] + len(ids))):
                ids = range(ids[0], ids[0] + len(ids))
            if case.get('pre_ids') is not None and isinstance(ids, np.ndarray):
                # an earlier call with the SAME id array object holding another order, then reordered in place
                want = ids.copy()
                ids[:] = np.array([c + base for c in case['pre_ids']], dtype=ids.dtype)
                correlograms(times, sc, cluster_ids=ids, sample_rate=r, bin_size=bin_size,
                             window_size=window, symmetrize=case['sym'])
                ids[:] = want
        if case.get('timeskind') == 'list':      # spike times given as a plain list
            times = times.tolist()
        keep = (list(times) if isinstance(times, list) else times.copy(), sc.copy(), None if ids is None else list(ids))
        out = correlograms(times, sc, cluster_ids=ids, sample_rate=r, bin_size=bin_size,
                           window_size=window, symmetrize=case['sym'])
        res = dict(arr=out.tolist(), shape=list(out.shape))
        # the caller's arrays are unchanged and the same call gives the same answer again
        res['args_changed'] = not (np.array_equal(times, keep[0]) and np.array_equal(sc, keep[1]) and
                                   (ids is None or list(ids) == keep[2]))
        out2 = correlograms(times, sc, cluster_ids=ids, sample_rate=r, bin_size=bin_size,
                            window_size=window, symmetrize=case['sym'])
        res['second_differs'] = not np.array_equal(out, out2)
        return res
    if case['op'] == 'firing':
        base = case.get('idbase', 0)
        sc = np.array([c + base for c in case['sc']], dtype=np.int64)
        ids = case.get('ids')
        if ids is not None:
            ids = [c + base for c in ids]
            if case.get('idskind') == 'tuple':
                ids = tuple(ids)
        out = firing_rate(sc, cluster_ids=ids, bin_size=case['bs'], duration=case['dur'])
        return dict(arr=np.asarray(out).tolist())
    if case['op'] == 'fl':
        # the float unit itself (no phylib code): correctly rounded conversion of p/q, products and quotients of doubles,
        # as Python scalars and as NumPy float64 arrays (the path `spike_times * sample_rate` takes)
        out, np_differs = [], False
        for it in case['items']:
            if it[0] == 'frac':
                try:
                    v = float(Fraction(it[1], it[2]))
                except OverflowError:
                    v = math.inf
            else:
                a, b = float.fromhex(it[1]), float.fromhex(it[2])
                v = a * b if it[0] == 'mul' else a / b
                w = (np.array([a, a]) * np.array([b, b]) if it[0] == 'mul' else np.array([a, a]) / np.array([b, b]))
                w2 = np.float64(a) * b if it[0] == 'mul' else np.float64(a) / b
                if not (float(w[0]) == v == float(w[1]) == float(w2)):
                    np_differs = True
            out.append(None if (math.isinf(v) or math.isnan(v)) else list(Fraction(v).as_integer_ratio()))
        return dict(vals=out, np_differs=np_differs)
    if case['op'] in ('increment', 'diff_shifted', 'create'):
        # the helpers named in the property's anchors; a refactoring that removes one is not an alarm
        import phylib.stats.ccg as ccg
        name = {'increment': '_increment', 'diff_shifted': '_diff_shifted', 'create': '_create_correlograms_array'}[case['op']]
        fn = getattr(ccg, name, None)
        if fn is None:
            return dict(missing=name)
        try:
            if case['op'] == 'increment':
                out = fn(np.array(case['arr'], dtype=np.int64), np.array(case['idx'], dtype=np.int64))
            elif case['op'] == 'diff_shifted':
                out = fn(np.array(case['arr'], dtype=np.int64), case['steps'])
            else:
                out = fn(case['nc'], case['winsize'])
        except ValueError as e:
            return dict(valueerror=str(e)[:80])
        return dict(arr=np.asarray(out).tolist())
    raise ValueError(case['op'])


def model_query(case, impl_res):
    if case['op'] == 'ccg':
        r, times, bin_size, window = _prep(case)
        q = dict(p=PID, op='ccg_fl', times=[_frac(t) for t in times.tolist()], sc=case['sc'], rate=_frac(r),
                 bin_size=_frac(float(bin_size)), window=_frac(float(window)), sym=case['sym'])
        if case.get('ids') is not None:
            q['ids'] = case['ids']
        if len(case['sc']) <= 8:
            q['spec'] = 1
        q['stmt'] = 1         # the statement's own counts where the bin is not a whole number of samples
        return q
    if case['op'] == 'fl':
        xs = []
        for it in case['items']:
            x = _fl_operands(it)
            xs.append(x.numerator if x.denominator == 1 else [x.numerator, x.denominator])
        return dict(p=PID, op='fl', xs=xs)
    if case['op'] == 'firing':
        q = dict(p=PID, op='firing_q', sc=case['sc'], bin_size=DC.frac(case['bs']))
        if case.get('ids') is not None:
            q['ids'] = case['ids']
        if case['dur'] is not None:
            q['duration'] = DC.frac(case['dur'])
        return q
    return {k: v for k, v in case.items() if not k.startswith('_')}


def oracle_ccg(t, sc, ids, B, half, sym):
    """the property statement at the sample level, brute force (pairs a<b): spike samples `t`, bin of `B` samples,
    `half` = half window in bins — the integers come from the Lean model of the float conversions"""
    nc = len(ids)
    pos = {c: i for i, c in enumerate(ids)}
    one = [[[0] * (half + 1) for _ in range(nc)] for _ in range(nc)]
    n = len(t)
    for b in range(n):
        for a in range(b):
            k = (t[b] - t[a]) // B
            if k <= half:
                one[pos[sc[a]]][pos[sc[b]]][k] += 1
    if not sym:
        return one
    out = [[None] * nc for _ in range(nc)]
    for i in range(nc):
        for j in range(nc):
            c0 = max(one[i][j][0], one[j][i][0])
            out[i][j] = list(reversed(one[j][i][1:])) + [c0] + one[i][j][1:]
    return out


def judge(case, impl_res, ans):
    if 'err' in ans:
        return 'MACHINERY: driver error %s' % ans['err']
    m = ans['ok']
    if case['op'] == 'fl':
        # my model of IEEE rounding against the float unit: never an alarm
        if 'raised' in impl_res:
            return 'MACHINERY: float unit stream raised %s (%s)' % (impl_res['raised'], impl_res['msg'])
        ok = impl_res['ok']
        if ok['np_differs']:
            return 'MACHINERY: NumPy and Python float products / quotients differ'
        for it, v, mv, inr in zip(case['items'], ok['vals'], m['model'], m['inrange']):
            if not inr:
                continue          # subnormal result or overflow: not modelled (tallied)
            if v is None or DC.to_fraction(mv) != Fraction(v[0], v[1]):
                return 'MACHINERY: roundDouble differs from the float unit on %s: model %s, float unit %s' % (it, mv, v)
        return None
    if case['op'] in ('increment', 'diff_shifted', 'create'):
        # helper level: the Lean definition against the real helper (None = the helper raises ValueError)
        if case['op'] == 'increment' and any(i >= len(case['arr']) for i in case['idx']):
            # an index beyond the array is outside the contract of the PRIVATE helper (`correlograms` only passes
            # indices built by ravel_multi_index for that array): what it does there (ValueError, IndexError, the
            # broadcasting corner _increment([], [0]) = []) may change under a behaviour-preserving refactoring
            # (refactoring C15 R2: np.add.at instead of bincount) - tallied, never judged
            return None
        if 'raised' in impl_res:
            return 'CORR: helper raised %s (%s)' % (impl_res['raised'], impl_res['msg'])
        ok = impl_res['ok']
        if 'missing' in ok:
            return None
        real = None if 'valueerror' in ok else ok['arr']
        if case.get('ood'):
            return None       # outside the loop's domain (steps > len): tallied only
        if real != m['model']:
            return 'CORR: %s: real %s, model %s' % (case['op'], real, m['model'])
        return None
    if case['op'] == 'ccg':
        case.pop('_c15_trunc', None)
        if m.get('fl_dom') is False:
            return None       # a product / quotient outside the normal range of binary64: not modelled (tallied)
        if m.get('model') is None:
            if m['binsize'] < 1:
                return None   # the model refuses (assert binsize >= 1): outside the quantifier whatever the real code does
            return 'MACHINERY: generated an out-of-domain case (cluster not in id list)'
        if m.get('model_eq_spec') is False:
            return 'MACHINERY: model differs from its Lean spec (contradicts the theorem)'
        # the integers of the Lean model of the float conversions define the sample-level predicate
        half = m['winsize'] // 2
        exp = oracle_ccg(m['samples'], case['sc'], m['ids'], m['binsize'], half, case['sym'])
        if exp != m['model']:
            return 'MACHINERY: python oracle differs from the Lean model'
        # in the property's quantifier (float products time*rate whole, no clipping) a disagreement is a failure of the
        # property; elsewhere the real code has left the model of the code
        kind = 'SPEC' if (m['on_grid'] and not m['clipped']) else 'CORR'
        ints = 'samples %s.., bin %s samples, %s bins' % (m['samples'][:4], m['binsize'], m['winsize'])
        if 'raised' in impl_res:
            return '%s: real code raised %s (%s) at %s on an in-domain input (%s)' % (
                kind, impl_res['raised'], impl_res['msg'], impl_res['where'], ints)
        arr = impl_res['ok']['arr']
        nc = len(exp)
        want = [nc, nc, (2 * half + 1) if case['sym'] else half + 1]
        if impl_res['ok']['shape'] != want:
            return '%s: wrong shape %s, expected %s (%s)' % (kind, impl_res['ok']['shape'], want, ints)
        if kind == 'SPEC' and not m['bin_whole']:
            # the bin is NOT a whole number of samples: the statement counts with the caller's bin, the code (and its
            # model) with the truncated one.  The statement's own counts, in seconds and in samples (see ASSUMPTIONS)
            if m.get('stmt_eq_spec') is False:
                return 'MACHINERY: stmtSeconds differs from specSeconds (contradicts the theorem)'
            stmts = (m['stmt_sec'], m['stmt_grid'])
            qs = 'rate*bin = %s samples' % (Fraction(*m['bin_prod']) if isinstance(m['bin_prod'], list) else m['bin_prod'])
            if arr in stmts:
                if arr != exp:
                    return ('CORR: correlogram equals the statement\'s pair counts for the caller\'s bin, not those of the '
                            'model of the code, which truncates the bin (%s; %s)' % (qs, ints))
            elif arr == exp:
                case['_c15_trunc'] = True
                return ('%s: bin_size is not a whole number of samples (%s) and the correlogram holds the pair counts for '
                        'the bin TRUNCATED to %s samples, not floor((t_b - t_a)/bin) for the bin given: real %s, statement %s'
                        % (TRUNC_KIND, qs, m['binsize'], _brief(arr), _brief(m['stmt_sec'])))
            else:
                return ('SPEC: correlogram differs from the statement\'s pair counts for the caller\'s bin AND from the pair '
                        'counts for the truncated bin (%s; %s)' % (qs, ints))
        elif arr != exp:
            return '%s: correlogram differs from the pair counts (%s)' % (kind, ints)
        if impl_res['ok'].get('args_changed'):
            return 'SPEC: correlograms modified the spike-time / cluster arrays passed by the caller'
        if impl_res['ok'].get('second_differs'):
            return 'SPEC: the same correlogram call gave a different result the second time'
        return None
    if m.get('model') is None:
        return 'MACHINERY: generated an out-of-domain case (cluster not in id list)'
    if 'raised' in impl_res:
        return 'SPEC: real code raised %s (%s) at %s on an in-domain input' % (
            impl_res['raised'], impl_res['msg'], impl_res['where'])
    arr = impl_res['ok']['arr']
    if case['op'] == 'firing':
        # the model's exact rationals count_i*count_j*bin/duration
        qs = [[DC.to_fraction(v) for v in row] for row in m['model']]
        fq = Fraction(case['bs']) / (Fraction(case['dur']) if case['dur'] else 1)
        exact_dom = _is_float(fq) and all(_is_float(v) for row in qs for v in row)
        if len(arr) != len(qs) or any(len(a) != len(b) for a, b in zip(arr, qs)):
            return 'SPEC: firing-rate normaliser has the wrong shape'
        for ra, rq in zip(arr, qs):
            for a, v in zip(ra, rq):
                e = float(v)
                if (a != e) if exact_dom else (abs(a - e) > 2.0 ** -40 * max(1., abs(e))):
                    return 'SPEC: firing-rate normaliser differs from outer(counts)*bin/duration'
        return None


# verdict kind of the open known finding: a kind of its own, so that shrinking another SPEC failure cannot drift into
# this class (and be swallowed by the known finding) nor the other way round
TRUNC_KIND = 'SPEC(bin truncated to whole samples)'


def _brief(a):
    t = json.dumps(a, separators=(',', ':'))
    return t if len(t) <= 120 else t[:117] + '...'


def nontrivial(case):
    if case['op'] == 'firing':
        return len(case['sc']) > 1
    if case['op'] in ('increment', 'diff_shifted', 'create', 'fl'):
        return True
    if 'times' in case:
        t, w = case['times'], case['window']
        return any(t[i + 1] - t[i] <= w / 2 for i in range(len(t) - 1))
    t, B, h = case['t'], case['bin'], case['half']
    return any((t[i + 1] - t[i]) // B <= h for i in range(len(t) - 1))


def tally(rep, case, impl_res, ans):
    rep.count('op:' + case['op'])
    m = ans.get('ok') or {}
    if case['op'] == 'fl':
        for it, inr in zip(case['items'], m.get('inrange', [])):
            rep.count('fl %s (%s): %s' % (it[0], it[3], 'compared' if inr else 'outside the normal range (not modelled)'))
        return
    if case['op'] in ('increment', 'diff_shifted', 'create'):
        ok = impl_res.get('ok') or {}
        if 'missing' in ok:
            rep.count('helper missing: ' + ok['missing'])
        if case.get('ood'):
            rep.count('diff_shifted with steps > len (outside the loop): real %s, model %s' % (
                'ValueError' if 'valueerror' in ok else ok.get('arr'), (ans.get('ok') or {}).get('model')))
        return
    if case['op'] == 'firing':
        rep.count('firing ids:%s dur:%s' % ('None' if case.get('ids') is None else 'given', case['dur']))
    if case['op'] == 'ccg':
        if m.get('fl_dom') is False:
            rep.count('ccg outside the normal range of binary64 (not judged)')
        elif m.get('model') is None:
            rep.count('ccg rejected by the model (bin below one sample): real %s' % (
                'raised ' + impl_res['raised'] if 'raised' in impl_res else 'accepted'))
        else:
            rep.count('ccg graded %s (times %s the sample grid%s)' % (
                'SPEC' if m.get('on_grid') and not m.get('clipped') else 'CORR',
                'on' if m.get('on_grid') else 'OFF', ', bin/window clipped' if m.get('clipped') else ''))
            rep.count('exact-rational conversions give %s integers as the float model' % (
                'the same' if m.get('q_same') else 'OTHER'))
            ok = impl_res.get('ok') or {}
            if m.get('on_grid') and not m.get('clipped') and not m.get('bin_whole'):
                arr = ok.get('arr')
                rep.count('bin NOT a whole number of samples (judged by the statement\'s counts): real output %s' % (
                    'raised' if arr is None else
                    'equals the statement and the model of the code' if arr in (m['stmt_sec'], m['stmt_grid']) and arr == m['model'] else
                    'equals the statement, NOT the model' if arr in (m['stmt_sec'], m['stmt_grid']) else
                    'equals the model (truncated bin), NOT the statement [known finding]' if arr == m['model'] else
                    'differs from both'))
                if m['stmt_sec'] != m['stmt_grid']:
                    rep.count('statement in seconds (exact doubles) and in samples (float products) differ by rounding noise')
            elif not m.get('on_grid') and 'stmt_sec' in m:
                rep.count('times BETWEEN samples with exact products (outside the quantifier, not judged by the statement): '
                          'real output %s the statement\'s counts' % ('equals' if ok.get('arr') == m['stmt_sec'] else 'differs from'))
        if case.get('flkind'):
            rep.count('doubles: ' + case['flkind'])
        if 'times' not in case:
            rep.count('generator integers (t, bin, half) %s by the float model' % (
                'reproduced' if (m.get('samples') == case['t'] and m.get('binsize') == case['bin'] and
                                 m.get('winsize') == 2 * case['half'] + 1) else 'NOT reproduced'))
            if case.get('wmult') is not None:
                rep.count('window = %s bins' % ('even' if case['wmult'] == 2 * case['half'] else 'fractional'))
            if case.get('binfrac'):
                rep.count('bin = whole + fraction of a sample')
        tt = case['times'] if 'times' in case else case['t']
        if tt and tt[0] < 0:
            rep.count('negative times')
        rep.count('n:%s' % (len(tt) if len(tt) <= 6 else '7+'))
        rep.count('sym:%s' % case['sym'])
        ids = case.get('ids')
        if ids is None:
            rep.count('ids:None')
        else:
            if ids != sorted(ids):
                rep.count('ids:unsorted')
            if set(ids) - set(case['sc']):
                rep.count('ids:with_empty')
        if len(set(tt)) < len(tt):
            rep.count('equal_times')
        rep.count('times_dtype:%s' % case.get('tdtype', 'float64'))
        rep.count('spike_clusters dtype:%s' % case.get('dtype', 'int64'))
        k = case.get('argkind')
        if k:
            r0, _, b0, w0 = _prep(case)
            rep.count('rate/bin/window scalars: %s' % (
                'np.float64' if k == 'np64' else
                ('np.float32 (%s)' % case.get('arg32', 'rbw') if _f32_safe(r0, b0, w0) else 'np.float32 wanted, not exact there: Python floats') if k == 'np32' else
                'whole rate as a Python int' if float(r0).is_integer() else 'Python floats'))
        if len(set(case['sc'])) >= 4:
            rep.count('4 or more clusters in use')
        rep.count('ids_container:%s' % (case.get('idskind', 'list') if ids is not None else 'None'))
        if case.get('pre_ids') is not None:
            rep.count('id_array_reordered_in_place_after_an_earlier_call')
        if 'times' not in case and tt and tt[-1] >= 2 ** 25:
            rep.count('sample_numbers_beyond_2^25')


def classify(case, impl_res, ans, why):
    if why.split(':')[0] == TRUNC_KIND:
        # narrow: the call site (ccg.py:126 binsize = int(sample_rate * bin_size)), the input class (spike times on the
        # sample grid, float product rate*bin fractional, nothing clipped) and what is observed (the real output IS the
        # pair-count array of the truncated bin and is NOT the statement's array) - judge() returns this kind only then
        return dict(op='ccg', site='bin_truncated_to_whole_samples', where='ccg.py:126', fractional_rate_bin=True,
                    times_on_sample_grid=True, observed='pair counts of the truncated bin')
    return dict(op=case['op'], kind=why.split(':')[0], sym=case.get('sym'),
                raised=impl_res.get('raised'), where=impl_res.get('where'))


def shrink(case):
    if case.get('_c15_trunc'):
        return      # the known finding (minimised in corpus/C15/pf_bin_truncated_to_whole_samples.json): nothing to shrink
    if case['op'] == 'ccg':
        tk = 'times' if 'times' in case else 't'
        n = len(case[tk])
        for i in range(n):
            c = dict(case); c[tk] = case[tk][:i] + case[tk][i + 1:]; c['sc'] = case['sc'][:i] + case['sc'][i + 1:]
            if c.get('ids') is None or set(c['sc']) <= set(c['ids']):
                yield c
        if case.get('ids'):
            for i in range(len(case['ids'])):
                if case['ids'][i] not in case['sc']:
                    c = dict(case); c['ids'] = case['ids'][:i] + case['ids'][i + 1:]
                    yield c
        if case.get('half', 0) > 0:
            c = dict(case); c['half'] = case['half'] - 1; yield c
        if case['sym']:
            c = dict(case); c['sym'] = False; yield c
    elif case['op'] == 'firing':
        n = len(case['sc'])
        for i in range(n):
            c = dict(case); c['sc'] = case['sc'][:i] + case['sc'][i + 1:]
            yield c


def _ulps(x, d):
    """the double |d| places after (d > 0) / before (d < 0) x"""
    for _ in range(abs(d)):
        x = math.nextafter(x, math.inf if d > 0 else -math.inf)
    return x


# (bin, window) in seconds as DECIMAL literals: neither is a dyadic rational, `.5*window/bin` is inexact, and the exact
# quotient of the two doubles often lies on the other side of an integer than the float quotient (0.1 / 2: 9.99..., fl 10)
DECIMAL_BW = [(0.1, 2.), (0.05, 1.), (0.001, 0.5), (0.002, 0.1), (0.01, 0.3), (0.0005, 0.05), (0.1, 1.), (0.02, 0.5),
              (0.3, 3.), (0.7, 4.9), (0.001, 0.1), (0.005, 0.25), (0.001, 0.05), (0.2, 2.), (0.025, 0.5), (0.04, 1.),
              (0.003, 0.09), (0.06, 0.6), (0.001, 0.007), (0.0001, 0.0021)]
RATES = [30000., 25000., 1000., 10., 20000., 44100., 32000., 100., 2500., 29999.954846]


def _times(kind, rng, r, w, n):
    """n non-decreasing spike times (doubles), a few of them inside half a window of each other"""
    gap = rng.pick([w / 8, w / 2, w * 2])
    if kind in ('grid', 'ulp'):
        T, out = rng.randrange(0, 50), []
        for _ in range(n):
            out.append(T / r)
            T += rng.randrange(0, int(gap * r * 2) + 2)
        if kind == 'ulp':
            out = sorted(_ulps(t, rng.randrange(-2, 3)) for t in out)       # an ulp or two around a sample boundary
        return out
    if kind in ('dyadic', 'decimal'):
        den = 64. if kind == 'dyadic' else 1000.
        k, out = rng.randrange(0, 50), []
        for _ in range(n):
            out.append(k / den)
            k += rng.randrange(0, int(gap * den * 2) + 2)
        return out
    t, out = rng.random() * gap, []                                             # 'offgrid': arbitrary doubles
    for _ in range(n):
        out.append(t)
        t += rng.random() * 2 * gap
    return out


def _float_case(rng, kind, r, b, w, n, **kw):
    times = _times(kind, rng, r, w, n)
    if rng.random() < .12:
        off = times[len(times) // 2]
        times = [t - off for t in times]            # negative times (exact subtraction or not: they are just doubles)
    nc = rng.randrange(1, 5)
    sc = [rng.randrange(nc) for _ in range(n)]
    c = dict(p=PID, op='ccg', times=times, sc=sc, rate=r, bin_size=b, window=w, sym=rng.random() < .5, flkind=kind)
    if rng.random() < .5:
        ids = list(range(nc + rng.randrange(0, 2)))
        rng.shuffle(ids)
        c['ids'] = ids
    if rng.random() < .15:
        c['argkind'] = rng.pick(['np64', 'np64', 'intrate'])
    c.update(kw)
    return c


def _float_cases(tier, rng):
    """arbitrary doubles: no exactness restriction; the Lean float model supplies the integers"""
    q = tier == 'quick'
    # the seeded `//` change of winsize_bins (float floor division takes the floor of the EXACT quotient): on-grid times
    yield dict(p=PID, op='ccg', times=[0.0, 0.5, 1.0, 1.5, 2.5], sc=[0, 0, 0, 0, 0], rate=10., bin_size=0.1, window=2.,
               sym=False, flkind='grid')
    for rep in range(1 if q else 8):
        for (b, w) in DECIMAL_BW:
            for r in RATES:
                for kind in ('grid', 'dyadic', 'offgrid', 'ulp', 'decimal'):
                    if r * b < 1 and rng.random() < .8:
                        continue                     # a bin below one sample is rejected: keep a few only
                    yield _float_case(rng, kind, r, b, w, rng.randrange(2, 14 if q else 50))
    # bins an ulp or two around a whole number of samples, windows an ulp around an even number of bins: int() of the
    # float product / quotient flips between k-1 and k
    cnt = 0
    for r in RATES:
        for k in (1, 2, 3, 30, 50):
            for d in (-2, -1, 0, 1, 2):
                b = _ulps(k / r, d)
                for h in (1, 5, 10):
                    for dw in (-1, 0, 1):
                        cnt += 1
                        if q and cnt % 5:
                            continue
                        yield _float_case(rng, 'grid', r, b, _ulps(2 * h * b, dw), rng.randrange(2, 9),
                                          flkind='bin/window an ulp around a whole number')
    # clipped bins / windows (the code silently uses 1e-5 / 1e5 s), and inputs outside the normal range of binary64
    for (r, b, w) in ((1e6, 2e-6, 1e-5), (1e6, 1e-6, 4e-5), (1e5, 5e-6, 1e-4), (0.001, 2e5, 5e5), (0.01, 1000., 3e5),
                      (1e6, 1e-5, 1e-5), (1e-5, 1e5, 1e5)):
        yield _float_case(rng, 'grid', r, b, w, 5, flkind='bin/window at or beyond the clipping bounds')
    yield dict(p=PID, op='ccg', times=[0.0, 1e-320, 3e-320], sc=[0, 0, 0], rate=1000., bin_size=0.001, window=0.01,
               sym=False, flkind='subnormal product')
    yield dict(p=PID, op='ccg', times=[0.0, 1e300], sc=[0, 0], rate=1e10, bin_size=0.001, window=0.01,
               sym=False, flkind='overflowing product')
    # random rates / bins / windows
    for _ in range(250 if q else 6000):
        r = rng.pick([rng.pick(RATES), round(rng.random() * 40000 + 1, rng.randrange(0, 4)), rng.random() * 1000 + .5])
        b = rng.pick([round(rng.random() * .01 + 2 / r, rng.randrange(3, 7)), rng.random() * .05 + 1 / r, rng.randrange(1, 40) / r])
        w = rng.pick([b * rng.randrange(1, 30), round(b * rng.randrange(1, 30), 4), rng.random() * 40 * b, 2 * rng.randrange(1, 12) * b])
        if not (b > 0 and w > 0):
            continue
        yield _float_case(rng, rng.pick(['grid', 'dyadic', 'offgrid', 'ulp', 'decimal']), r, b, w,
                          rng.randrange(2, 25 if q else 80))


def _fl_items(rng):
    """one batch of (operation, operands, label): exact rational -> double, against the float unit"""
    def rd(emin, emax):
        return rng.pick([1, -1]) * math.ldexp(rng.randrange(2 ** 52, 2 ** 53), rng.randrange(emin, emax) - 52)

    def pw(m, e):                # m * 2^e as an exact fraction (p, q)
        return (m << e, 1) if e >= 0 else (m, 1 << -e)
    items = []
    for _ in range(8):
        items.append(['frac', rng.pick([1, -1]) * rng.randrange(1, 2 ** rng.randrange(1, 200)),
                      rng.randrange(1, 2 ** rng.randrange(1, 200)), 'random p/q'])
    for _ in range(6):          # exact ties: (2m+1) * 2^(e-1), m a 53-bit significand
        m, e = rng.randrange(2 ** 52, 2 ** 53), rng.randrange(-1000, 900)
        p, d = pw(2 * m + 1, e - 1)
        items.append(['frac', rng.pick([1, -1]) * p, d, 'exact tie'])
        j = rng.randrange(1, 150)                 # ... and a hair beside the tie
        p2, d2 = pw((2 * m + 1) * 2 ** j + rng.pick([1, -1]), e - 1 - j)
        items.append(['frac', p2, d2, 'beside a tie'])
    for _ in range(4):          # around a power of two: the spacing changes there
        e = rng.randrange(-1000, 1000)
        for num, sh, lab in ((2 ** 54 - 1, 54, 'tie just below a power of two'), (2 ** 55 - 1, 55, 'quarter ulp below a power of two'),
                             (2 ** 54 + 1, 54, 'quarter ulp above a power of two'), (1, 0, 'power of two'),
                             (2 ** 53 + 1, 53, 'tie just above a power of two')):
            p, d = pw(num, e - sh)
            items.append(['frac', p, d, lab])
    for k in range(-2, 4):
        items.append(['frac', rng.pick([2 ** 53, 2 ** 54, 2 ** 60]) + k, 1, 'integer beyond 2^53'])
    for _ in range(8):
        items.append(['mul', rd(-500, 450).hex(), rd(-500, 450).hex(), 'random product'])
        items.append(['div', rd(-500, 450).hex(), rd(-500, 450).hex(), 'random quotient'])
    for _ in range(4):          # two odd 27-bit integers: a 54-bit odd product is an exact tie
        a, b = rng.randrange(2 ** 26, 2 ** 27) | 1, rng.randrange(2 ** 26, 2 ** 27) | 1
        items.append(['mul', math.ldexp(a, rng.randrange(-300, 300)).hex(), math.ldexp(b, rng.randrange(-300, 300)).hex(),
                      'product of two 27-bit integers (tie when 54 bits)'])
    for _ in range(3):          # results around the ends of the normal range (subnormal / overflow are not compared)
        items.append(['mul', rd(-520, -505).hex(), rd(-520, -505).hex(), 'product near 2^-1022'])
        items.append(['mul', rd(505, 515).hex(), rd(505, 512).hex(), 'product near 2^1024'])
        items.append(['div', rd(-520, -505).hex(), rd(505, 520).hex(), 'quotient near 2^-1022'])
    for _ in range(4):          # the expressions of correlograms / the readers on decimal literals
        b, w = rng.pick(DECIMAL_BW)
        r = rng.pick(RATES)
        items.append(['mul', float(r).hex(), float(b).hex(), 'rate * decimal bin'])
        items.append(['div', (.5 * w).hex(), float(b).hex(), '.5 * window / bin'])
        items.append(['mul', (rng.randrange(0, 10 ** 7) / r).hex(), float(r).hex(), '(T / rate) * rate'])
        items.append(['mul', (600.0).hex(), _ulps((rng.randrange(1, 4000) + .5) / 600., rng.randrange(-3, 4)).hex(),
                      '600 * rate near a .5 tie'])
    return items


def _fl_cases(tier, rng):
    for _ in range(50 if tier == 'quick' else 1500):
        yield dict(p=PID, op='fl', items=_fl_items(rng))


def gen(tier, rng):
    q = tier == 'quick'
    L, G = (5, 5) if q else (6, 6)
    idsets = [None, [0, 1], [1, 0], [0, 1, 2], [2, 0, 1], [1, 3, 0], [3, 1, 0, 2]]
    # share of the bins that are not a whole number of samples: most of them are cases of the open known finding
    # (bin_truncated_to_whole_samples), and check evaluates every such case a second time, one by one
    fshare = 45 if q else 7
    cnt = 0
    for n in range(0, L + 1):
        for t in itertools.combinations_with_replacement(range(G), n):
            for sc in itertools.product(range(2 if n > 3 else 3), repeat=n):
                for (B, h) in ((1, 0), (1, 1), (2, 1), (1, 3), (3, 2)):
                    cnt += 1
                    ids = idsets[cnt % len(idsets)]
                    if ids is not None and not set(sc) <= set(ids):
                        ids = [2, 0, 1]
                    c = dict(p=PID, op='ccg', t=list(t), sc=list(sc), bin=B, half=h,
                             rate=(1., 2., 1024., 1000.)[cnt % 4], sym=bool(cnt % 3 == 0))
                    if ids is not None:
                        c['ids'] = ids
                    if n == 0:
                        c['ids'] = [0, 1]
                    # windows that are an even / a fractional multiple of the bin (same half window), bins that are
                    # not a whole number of samples (the code truncates), negative times
                    if (cnt // 5) % 3 == 1:
                        c['wmult'] = [2 * h, 2 * h + 1.75, 2 * h + 0.5][cnt % 3] if h > 0 else [1.5, 1.75][cnt % 2]
                    if cnt % fshare == 2:
                        c['binfrac'] = [0.5, 0.25][(cnt // fshare) % 2]
                    if cnt % 11 == 3:
                        c['t'] = [v - 3 for v in c['t']]
                    if cnt % 13 == 5:
                        # rate / bin / window as NumPy scalars or a Python int (np.float32 where exact, see _f32_safe)
                        c['argkind'] = ('np64', 'np32', 'intrate', 'np32', 'np64')[(cnt // 13) % 5]
                        if c['argkind'] == 'np32':
                            c['arg32'] = ('rbw', 'b', 'bw', 'r', 'w', 'rb')[(cnt // 52) % 6]
                    yield c
    # all labelings that USE four clusters (the quantifier: 1..4), trains of 4 and 5 spikes, id lists in every order
    perms4 = list(itertools.permutations(range(4)))
    cnt = met = 0
    for n, G in ((4, 4), (5, 3)):
        for t in itertools.combinations_with_replacement(range(G), n):
            for sc in itertools.product(range(4), repeat=n):
                if len(set(sc)) < 4:
                    continue
                met += 1
                if n == 5 and met % 12:
                    continue                      # 5 spikes: one labeling in 12
                cnt += 1
                B, h = ((1, 1), (2, 1), (1, 3), (1, 0), (3, 2))[cnt % 5]
                c = dict(p=PID, op='ccg', t=list(t), sc=list(sc), bin=B, half=h, rate=(1., 2., 1024., 1000.)[cnt % 4],
                         sym=bool(cnt % 3 == 0))
                k = cnt % 7
                if k < 4:
                    c['ids'] = list(perms4[(cnt // 7) % 24])
                elif k < 6:
                    ids = list(perms4[(cnt // 7) % 24])
                    ids.insert(cnt % 5, 4 + cnt % 3)          # an id without spikes somewhere in the list
                    c['ids'] = ids
                if cnt % 9 == 4:
                    c['binfrac'] = [0.5, 0.25][cnt % 2]
                yield c
    # firing rates
    for n in range(0, 6):
        for sc in itertools.product(range(3), repeat=n):
            for ids in ([0, 1, 2], [2, 0, 1], [1, 5, 0, 2], None):
                if n == 0 and ids is None:
                    continue
                k = sum(sc) + n
                c = dict(p=PID, op='firing', sc=list(sc), bs=(0.5, 0.375, 0.1)[k % 3], dur=(0, 3.0, 7.0, None, 4.0, 0.25)[k % 6])
                if ids is not None:
                    c['ids'] = ids
                    c['idbase'] = [0, 0, 1000001][(n + len(ids)) % 3]
                    if k % 4 == 1:
                        c['idskind'] = 'tuple'
                yield c
    # the helpers on small arrays (exhaustive)
    for n in range(0, 5):
        for arr in itertools.product(range(-1, 2), repeat=n):
            for steps in range(0, n + 3):
                c = dict(p=PID, op='diff_shifted', arr=list(arr), steps=steps)
                if steps > n:
                    c['ood'] = True
                yield c
    for L in range(0, 5):
        for k in range(0, 4):
            for idx in itertools.product(range(0, 6), repeat=k):
                yield dict(p=PID, op='increment', arr=[(7 * i + k) % 4 for i in range(L)], idx=list(idx))
    for nc in range(0, 4):
        for ws in (1, 3, 5, 9):
            yield dict(p=PID, op='create', nc=nc, winsize=ws)
    # spike counts whose pairwise products exceed 2^31 (a 14 Hz unit over one hour)
    big = [[50000, 47000], [46341, 46341, 5]] if q else [[50000, 47000], [46341, 46341, 5], [70000, 3, 31000],
                                                          [46340, 46342], [100000], [65536, 65536, 65537]]
    for counts in big:
        sc = [i for i, n in enumerate(counts) for _ in range(n)]
        ids = list(range(len(counts)))[::-1] + [len(counts) + 2]
        yield dict(p=PID, op='firing', sc=sc, ids=ids, bs=0.5, dur=3600.0)
    # random long trains
    R = 150 if q else 3000
    for _ in range(R):
        n = rng.randrange(2, 120 if q else 400)
        span = rng.pick([n // 2 + 1, n * 3, n * 20])
        t = sorted(rng.randrange(span) for _ in range(n))
        nc = rng.randrange(1, 5)
        pool = rng.sample(range(12), nc + rng.randrange(0, 2))
        used = pool[:nc]
        sc = [rng.pick(used) for _ in range(n)]
        c = dict(p=PID, op='ccg', t=t, sc=sc, bin=rng.pick([1, 2, 3, 7, 16]), half=rng.pick([0, 1, 2, 5, 12]),
                 rate=rng.pick([1., 4., 1000., 30000.]), sym=rng.random() < .5,
                 dtype=rng.pick(['int64', 'int32', 'uint32', 'uint64', 'int16', 'uint16', 'int8', 'uint8']))
        if rng.random() < .8:
            rng.shuffle(pool)
            c['ids'] = list(pool)
            c['idskind'] = rng.pick(['list', 'array', 'array32', 'tuple', 'range'])
            if c['idskind'] != 'list' and rng.random() < .5:
                c['pre_ids'] = rng.sample(c['ids'], len(c['ids']))
        if rng.random() < .2:
            c['timeskind'] = 'list'
        if rng.random() < .3:
            c['argkind'] = rng.pick(['np64', 'np32', 'intrate'])
            if c['argkind'] == 'np32':
                c['arg32'] = rng.pick(['rbw', 'b', 'bw', 'r', 'w', 'rb'])
        if c['dtype'] == 'int64' and rng.random() < .3:
            c['idbase'] = rng.pick([1000, 1000000, 5000000])    # large cluster ids
        if rng.random() < .25:
            # float32 spike times late in a long recording: whole seconds plus eighths are exact in float32 and
            # their product with the rate is an exact integer in float64 (what the code computes), not in float32
            c['rate'] = rng.pick([30000., 25000., 1000.])
            g = int(c['rate']) // 8
            t0 = int(c['rate']) * rng.randrange(1200, 4000)
            c['t'] = [t0 + g * x for x in c['t']]
            c['bin'] = g * rng.pick([1, 2, 3])
            c['tdtype'] = 'float32'
        yield c
    yield from _float_cases(tier, rng)
    yield from _fl_cases(tier, rng)
