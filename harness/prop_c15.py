"""C15 — correlograms count exactly the spike pairs in each lag bin (DESIGN.md §5 C15)."""
import functools
import itertools
import math
from fractions import Fraction
import numpy as np
from . import common as C
from . import dense_common as DC

PID = 'C15'
PARALLEL = False
BATCH = 3000
BUDGET_S = {'quick': 70, 'thorough': 900}
RULE = ('exhaustive: all sorted trains of length <= L on a small time grid (equal times included) x '
        'labelings over <= 3 clusters x cluster-id lists in every order incl. ids without spikes x '
        '(bin, half-window) grid x symmetrize on/off, windows that are odd, even and fractional multiples of the bin, '
        'bins that are a whole or a fractional number of samples, negative times; then random long trains; the '
        'helpers _increment / _diff_shifted / _create_correlograms_array on small arrays; firing_rate with '
        'cluster_ids given or None, durations 0 / None / dyadic / non-dyadic. non-trivial = at '
        'least one spike pair inside the window (model array has a non-zero entry)')
ASSUMPTIONS = [
    'float -> sample conversion ((times*rate).astype(int64), int(rate*clip(bin)), 2*int(.5*clip(window)/clip(bin))+1) is '
    'MODELLED in Lean over exact rationals (Model/C15b.lean); the harness only generates inputs for which it verifies '
    'with exact fractions that every float operation of these expressions is exact (or, for the one division, that '
    'rounding does not cross an integer), and passes the exact rational values of the floats to the model',
    'firing_rate: the model computes count_i*count_j*bin/duration as a rational; compared exactly when the two float '
    'operations of the code are exact on the input, with the DESIGN §3 tolerance 2^-40 (relative) otherwise',
]


def _prep(case):
    r = float(case['rate'])
    T = np.array(case['t'], dtype=np.int64)
    times = T / r
    if case.get('tdtype'):
        times = times.astype(case['tdtype'])         # e.g. float32 spike times (exactly representable ones only, see exact())
    # bin: `bin` samples, optionally plus a fraction of a sample (the code truncates rate*bin_size)
    bin_size = (case['bin'] + case.get('binfrac', 0.)) / r
    # window: (2*half+1) bins by default; `wmult` gives another multiple of the bin with the same half window
    window = case.get('wmult', 2 * case['half'] + 1) * bin_size
    return r, T, times, bin_size, window


@functools.lru_cache(maxsize=1 << 16)
def _fr(x):
    return Fraction(x)


@functools.lru_cache(maxsize=1 << 16)
def _frac(x):
    return DC.frac(x)


def _is_float(fr):
    return Fraction(float(fr)) == fr


def exact(case):
    """the harness-side verification (exact fractions) that on this input the float conversions of the code give the
    integers the exact rational computation gives: each float product / quotient is either exact or its rounding does
    not cross an integer"""
    r, T, times, bin_size, window = _prep(case)
    fr = _fr(r)
    for t, s in zip(times.tolist(), T.tolist()):
        if math.trunc(_fr(t) * fr) != s or int(t * r) != s:
            return False
    if not (1e-5 <= bin_size <= 1e5 and 1e-5 <= window <= 1e5):            # clip is the identity
        return False
    fb, fw = _fr(float(bin_size)), _fr(float(window))
    if not (int(r * float(bin_size)) == math.trunc(fr * fb) == case['bin']):
        return False
    q = fw / 2 / fb                                                         # .5*window is exact; one division
    return int(float(.5 * window / bin_size)) == int(q) == case['half']


def impl(case):
    from phylib.stats.ccg import correlograms, firing_rate
    if case['op'] == 'ccg':
        r, T, times, bin_size, window = _prep(case)
        base = case.get('idbase', 0)          # the same labelling with every cluster id shifted by a constant
        sc = np.array([c + base for c in case['sc']], dtype=getattr(np, case.get('dtype', 'int64')))
        ids = case.get('ids')
        if ids is not None:
            ids = [c + base for c in ids]
            if case.get('idskind') == 'array':
                ids = np.array(ids, dtype=np.int64)
            elif case.get('idskind') == 'array32':
                ids = np.array(ids, dtype=np.int32)
            elif case.get('idskind') == 'tuple':
                ids = tuple(ids)
            elif case.get('idskind') == 'range' and ids == list(range(ids[0], ids[0] + len(ids))):
                ids = range(ids[0], ids[0] + len(ids))
            if case.get('pre_ids') is not None and isinstance(ids, np.ndarray):
                # an earlier call with the SAME id array object holding another order, then reordered in place
                want = ids.copy()
                ids[:] = np.array([c + base for c in case['pre_ids']], dtype=ids.dtype)
                correlograms(times, sc, cluster_ids=ids, sample_rate=r, bin_size=bin_size,
                             window_size=window, symmetrize=case['sym'])
                ids[:] = want
        if case.get('timeskind') == 'list':      # spike times given as a plain list
            times = times.tolist()
        keep = (list(times) if isinstance(times, list) else times.copy(), sc.copy(), None if ids is None else list(ids))
        out = correlograms(times, sc, cluster_ids=ids, sample_rate=r, bin_size=bin_size,
                           window_size=window, symmetrize=case['sym'])
        res = dict(arr=out.tolist(), shape=list(out.shape))
        # the caller's arrays are unchanged and the same call gives the same answer again
        res['args_changed'] = not (np.array_equal(times, keep[0]) and np.array_equal(sc, keep[1]) and
                                   (ids is None or list(ids) == keep[2]))
        out2 = correlograms(times, sc, cluster_ids=ids, sample_rate=r, bin_size=bin_size,
                            window_size=window, symmetrize=case['sym'])
        res['second_differs'] = not np.array_equal(out, out2)
        return res
    if case['op'] == 'firing':
        base = case.get('idbase', 0)
        sc = np.array([c + base for c in case['sc']], dtype=np.int64)
        ids = case.get('ids')
        if ids is not None:
            ids = [c + base for c in ids]
            if case.get('idskind') == 'tuple':
                ids = tuple(ids)
        out = firing_rate(sc, cluster_ids=ids, bin_size=case['bs'], duration=case['dur'])
        return dict(arr=np.asarray(out).tolist())
    if case['op'] in ('increment', 'diff_shifted', 'create'):
        # the helpers named in the property's anchors; a refactoring that removes one is not an alarm
        import phylib.stats.ccg as ccg
        name = {'increment': '_increment', 'diff_shifted': '_diff_shifted', 'create': '_create_correlograms_array'}[case['op']]
        fn = getattr(ccg, name, None)
        if fn is None:
            return dict(missing=name)
        try:
            if case['op'] == 'increment':
                out = fn(np.array(case['arr'], dtype=np.int64), np.array(case['idx'], dtype=np.int64))
            elif case['op'] == 'diff_shifted':
                out = fn(np.array(case['arr'], dtype=np.int64), case['steps'])
            else:
                out = fn(case['nc'], case['winsize'])
        except ValueError as e:
            return dict(valueerror=str(e)[:80])
        return dict(arr=np.asarray(out).tolist())
    raise ValueError(case['op'])


def model_query(case, impl_res):
    if case['op'] == 'ccg':
        r, T, times, bin_size, window = _prep(case)
        q = dict(p=PID, op='ccg_q', times=[_frac(t) for t in times.tolist()], sc=case['sc'], rate=_frac(r),
                 bin_size=_frac(float(bin_size)), window=_frac(float(window)), sym=case['sym'])
        if case.get('ids') is not None:
            q['ids'] = case['ids']
        if len(case['t']) <= 8:
            q['spec'] = 1
        return q
    if case['op'] == 'firing':
        q = dict(p=PID, op='firing_q', sc=case['sc'], bin_size=DC.frac(case['bs']))
        if case.get('ids') is not None:
            q['ids'] = case['ids']
        if case['dur'] is not None:
            q['duration'] = DC.frac(case['dur'])
        return q
    return {k: v for k, v in case.items() if not k.startswith('_')}


def oracle_ccg(case):
    """the property statement, brute force (pairs a<b)"""
    t, sc, half, B = case['t'], case['sc'], case['half'], case['bin']
    ids = case.get('ids')
    if ids is None:
        ids = sorted(set(sc))
    nc = len(ids)
    pos = {c: i for i, c in enumerate(ids)}
    one = [[[0] * (half + 1) for _ in range(nc)] for _ in range(nc)]
    n = len(t)
    for b in range(n):
        for a in range(b):
            k = (t[b] - t[a]) // B
            if k <= half:
                one[pos[sc[a]]][pos[sc[b]]][k] += 1
    if not case['sym']:
        return one
    out = [[None] * nc for _ in range(nc)]
    for i in range(nc):
        for j in range(nc):
            c0 = max(one[i][j][0], one[j][i][0])
            out[i][j] = list(reversed(one[j][i][1:])) + [c0] + one[i][j][1:]
    return out


def judge(case, impl_res, ans):
    if 'err' in ans:
        return 'MACHINERY: driver error %s' % ans['err']
    m = ans['ok']
    if case['op'] in ('increment', 'diff_shifted', 'create'):
        # helper level: the Lean definition against the real helper (None = the helper raises ValueError)
        if 'raised' in impl_res:
            return 'CORR: helper raised %s (%s)' % (impl_res['raised'], impl_res['msg'])
        ok = impl_res['ok']
        if 'missing' in ok:
            return None
        real = None if 'valueerror' in ok else ok['arr']
        if case.get('ood'):
            return None       # outside the loop's domain (steps > len): tallied only
        if real != m['model']:
            return 'CORR: %s: real %s, model %s' % (case['op'], real, m['model'])
        return None
    if m.get('model') is None:
        return 'MACHINERY: generated an out-of-domain case (cluster not in id list)'
    if m.get('model_eq_spec') is False:
        return 'MACHINERY: model differs from its Lean spec (contradicts the theorem)'
    if 'raised' in impl_res:
        return 'SPEC: real code raised %s (%s) at %s on an in-domain input' % (
            impl_res['raised'], impl_res['msg'], impl_res['where'])
    arr = impl_res['ok']['arr']
    if case['op'] == 'ccg':
        # the integers the Lean model derives from the exact rational inputs are the generator's
        if m['samples'] != case['t'] or m['binsize'] != case['bin'] or m['winsize'] != 2 * case['half'] + 1:
            return 'MACHINERY: the Lean model of the float conversions (%s, %s, %s) differs from the generated integers' % (
                m['samples'][:5], m['binsize'], m['winsize'])
        exp = oracle_ccg(case)
        if exp != m['model']:
            return 'MACHINERY: python oracle differs from the Lean model'
        nc = len(exp)
        if impl_res['ok']['shape'] != [nc, nc, (2 * case['half'] + 1) if case['sym'] else case['half'] + 1]:
            return 'SPEC: wrong shape %s' % impl_res['ok']['shape']
        if arr != exp:
            return 'SPEC: correlogram differs from the pair counts'
        if impl_res['ok'].get('args_changed'):
            return 'SPEC: correlograms modified the spike-time / cluster arrays passed by the caller'
        if impl_res['ok'].get('second_differs'):
            return 'SPEC: the same correlogram call gave a different result the second time'
        return None
    if case['op'] == 'firing':
        # the model's exact rationals count_i*count_j*bin/duration
        qs = [[DC.to_fraction(v) for v in row] for row in m['model']]
        fq = Fraction(case['bs']) / (Fraction(case['dur']) if case['dur'] else 1)
        exact_dom = _is_float(fq) and all(_is_float(v) for row in qs for v in row)
        if len(arr) != len(qs) or any(len(a) != len(b) for a, b in zip(arr, qs)):
            return 'SPEC: firing-rate normaliser has the wrong shape'
        for ra, rq in zip(arr, qs):
            for a, v in zip(ra, rq):
                e = float(v)
                if (a != e) if exact_dom else (abs(a - e) > 2.0 ** -40 * max(1., abs(e))):
                    return 'SPEC: firing-rate normaliser differs from outer(counts)*bin/duration'
        return None


def nontrivial(case):
    if case['op'] == 'firing':
        return len(case['sc']) > 1
    if case['op'] in ('increment', 'diff_shifted', 'create'):
        return True
    t, B, h = case['t'], case['bin'], case['half']
    return any((t[i + 1] - t[i]) // B <= h for i in range(len(t) - 1))


def tally(rep, case, impl_res, ans):
    rep.count('op:' + case['op'])
    if case['op'] in ('increment', 'diff_shifted', 'create'):
        ok = impl_res.get('ok') or {}
        if 'missing' in ok:
            rep.count('helper missing: ' + ok['missing'])
        if case.get('ood'):
            rep.count('diff_shifted with steps > len (outside the loop): real %s, model %s' % (
                'ValueError' if 'valueerror' in ok else ok.get('arr'), (ans.get('ok') or {}).get('model')))
        return
    if case['op'] == 'firing':
        rep.count('firing ids:%s dur:%s' % ('None' if case.get('ids') is None else 'given', case['dur']))
    if case['op'] == 'ccg':
        if case.get('wmult') is not None:
            rep.count('window = %s bins' % ('even' if case['wmult'] == 2 * case['half'] else 'fractional'))
        if case.get('binfrac'):
            rep.count('bin = whole + fraction of a sample')
        if case['t'] and case['t'][0] < 0:
            rep.count('negative times')
    if case['op'] == 'ccg':
        rep.count('n:%s' % (len(case['t']) if len(case['t']) <= 6 else '7+'))
        rep.count('sym:%s' % case['sym'])
        ids = case.get('ids')
        if ids is None:
            rep.count('ids:None')
        else:
            if ids != sorted(ids):
                rep.count('ids:unsorted')
            if set(ids) - set(case['sc']):
                rep.count('ids:with_empty')
        if len(set(case['t'])) < len(case['t']):
            rep.count('equal_times')
        rep.count('times_dtype:%s' % case.get('tdtype', 'float64'))
        rep.count('ids_container:%s' % (case.get('idskind', 'list') if ids is not None else 'None'))
        if case.get('pre_ids') is not None:
            rep.count('id_array_reordered_in_place_after_an_earlier_call')
        if case['t'] and case['t'][-1] >= 2 ** 25:
            rep.count('sample_numbers_beyond_2^25')


def classify(case, impl_res, ans, why):
    return dict(op=case['op'], kind=why.split(':')[0], sym=case.get('sym'),
                raised=impl_res.get('raised'), where=impl_res.get('where'))


def shrink(case):
    if case['op'] == 'ccg':
        n = len(case['t'])
        for i in range(n):
            c = dict(case); c['t'] = case['t'][:i] + case['t'][i + 1:]; c['sc'] = case['sc'][:i] + case['sc'][i + 1:]
            if c.get('ids') is None or set(c['sc']) <= set(c['ids']):
                yield c
        if case.get('ids'):
            for i in range(len(case['ids'])):
                if case['ids'][i] not in case['sc']:
                    c = dict(case); c['ids'] = case['ids'][:i] + case['ids'][i + 1:]
                    yield c
        if case['half'] > 0:
            c = dict(case); c['half'] = case['half'] - 1; yield c
        if case['sym']:
            c = dict(case); c['sym'] = False; yield c
    elif case['op'] == 'firing':
        n = len(case['sc'])
        for i in range(n):
            c = dict(case); c['sc'] = case['sc'][:i] + case['sc'][i + 1:]
            yield c


def gen(tier, rng):
    q = tier == 'quick'
    L, G = (5, 5) if q else (6, 6)
    idsets = [None, [0, 1], [1, 0], [0, 1, 2], [2, 0, 1], [1, 3, 0], [3, 1, 0, 2]]
    cnt = 0
    for n in range(0, L + 1):
        for t in itertools.combinations_with_replacement(range(G), n):
            for sc in itertools.product(range(2 if n > 3 else 3), repeat=n):
                for (B, h) in ((1, 0), (1, 1), (2, 1), (1, 3), (3, 2)):
                    cnt += 1
                    ids = idsets[cnt % len(idsets)]
                    if ids is not None and not set(sc) <= set(ids):
                        ids = [2, 0, 1]
                    c = dict(p=PID, op='ccg', t=list(t), sc=list(sc), bin=B, half=h,
                             rate=(1., 2., 1024., 1000.)[cnt % 4], sym=bool(cnt % 3 == 0))
                    if ids is not None:
                        c['ids'] = ids
                    if n == 0:
                        c['ids'] = [0, 1]
                    # windows that are an even / a fractional multiple of the bin (same half window), bins that are
                    # not a whole number of samples (the code truncates), negative times
                    if (cnt // 5) % 3 == 1:
                        c['wmult'] = [2 * h, 2 * h + 1.75, 2 * h + 0.5][cnt % 3] if h > 0 else [1.5, 1.75][cnt % 2]
                    if cnt % 7 == 2:
                        c['binfrac'] = [0.5, 0.25][cnt % 2]
                    if cnt % 11 == 3:
                        c['t'] = [v - 3 for v in c['t']]
                    if exact(c):
                        yield c
    # firing rates
    for n in range(0, 6):
        for sc in itertools.product(range(3), repeat=n):
            for ids in ([0, 1, 2], [2, 0, 1], [1, 5, 0, 2], None):
                if n == 0 and ids is None:
                    continue
                k = sum(sc) + n
                c = dict(p=PID, op='firing', sc=list(sc), bs=(0.5, 0.375, 0.1)[k % 3], dur=(0, 3.0, 7.0, None, 4.0, 0.25)[k % 6])
                if ids is not None:
                    c['ids'] = ids
                    c['idbase'] = [0, 0, 1000001][(n + len(ids)) % 3]
                    if k % 4 == 1:
                        c['idskind'] = 'tuple'
                yield c
    # the helpers on small arrays (exhaustive)
    for n in range(0, 5):
        for arr in itertools.product(range(-1, 2), repeat=n):
            for steps in range(0, n + 3):
                c = dict(p=PID, op='diff_shifted', arr=list(arr), steps=steps)
                if steps > n:
                    c['ood'] = True
                yield c
    for L in range(0, 5):
        for k in range(0, 4):
            for idx in itertools.product(range(0, 6), repeat=k):
                yield dict(p=PID, op='increment', arr=[(7 * i + k) % 4 for i in range(L)], idx=list(idx))
    for nc in range(0, 4):
        for ws in (1, 3, 5, 9):
            yield dict(p=PID, op='create', nc=nc, winsize=ws)
    # spike counts whose pairwise products exceed 2^31 (a 14 Hz unit over one hour)
    big = [[50000, 47000], [46341, 46341, 5]] if q else [[50000, 47000], [46341, 46341, 5], [70000, 3, 31000],
                                                          [46340, 46342], [100000], [65536, 65536, 65537]]
    for counts in big:
        sc = [i for i, n in enumerate(counts) for _ in range(n)]
        ids = list(range(len(counts)))[::-1] + [len(counts) + 2]
        yield dict(p=PID, op='firing', sc=sc, ids=ids, bs=0.5, dur=3600.0)
    # random long trains
    R = 150 if q else 3000
    for _ in range(R):
        n = rng.randrange(2, 120 if q else 400)
        span = rng.pick([n // 2 + 1, n * 3, n * 20])
        t = sorted(rng.randrange(span) for _ in range(n))
        nc = rng.randrange(1, 5)
        pool = rng.sample(range(12), nc + rng.randrange(0, 2))
        used = pool[:nc]
        sc = [rng.pick(used) for _ in range(n)]
        c = dict(p=PID, op='ccg', t=t, sc=sc, bin=rng.pick([1, 2, 3, 7, 16]), half=rng.pick([0, 1, 2, 5, 12]),
                 rate=rng.pick([1., 4., 1000., 30000.]), sym=rng.random() < .5,
                 dtype=rng.pick(['int64', 'int32', 'uint32']))
        if rng.random() < .8:
            rng.shuffle(pool)
            c['ids'] = list(pool)
            c['idskind'] = rng.pick(['list', 'array', 'array32', 'tuple', 'range'])
            if c['idskind'] != 'list' and rng.random() < .5:
                c['pre_ids'] = rng.sample(c['ids'], len(c['ids']))
        if rng.random() < .2:
            c['timeskind'] = 'list'
        if c['dtype'] == 'int64' and rng.random() < .3:
            c['idbase'] = rng.pick([1000, 1000000, 5000000])    # large cluster ids
        if rng.random() < .25:
            # float32 spike times late in a long recording: whole seconds plus eighths are exact in float32 and
            # their product with the rate is an exact integer in float64 (what the code computes), not in float32
            c['rate'] = rng.pick([30000., 25000., 1000.])
            g = int(c['rate']) // 8
            t0 = int(c['rate']) * rng.randrange(1200, 4000)
            c['t'] = [t0 + g * x for x in c['t']]
            c['bin'] = g * rng.pick([1, 2, 3])
            c['tdtype'] = 'float32'
        if exact(c):
            yield c
