"""C08 — curated clusters get the right template provenance and waveforms (DESIGN.md §5 C08)."""
import numpy as np
from . import common as C
from . import dataset as D
from . import dense_common as DC

PID = 'C08'
PARALLEL = True
BATCH = 100
BUDGET_S = {'quick': 80, 'thorough': 1200}
RULE = ('(spike_templates, spike_clusters) produced by random merge / split / reassign sequences (empty ids, '
        'one-spike clusters, count ties), dense small-integer templates, geometries with and without shanks, '
        'with/without (diagonal dyadic) whitening, plus un-curated datasets incl. a last template without '
        'spikes; a quarter of the datasets on a probe-like layout of 16..20 sites (20..100 um pitch) whose coordinates '
        'are stored in every integer dtype (int8 .. uint64) or as floats, the neighbourhood (default 12) smaller than '
        'the probe. One extra dataset in eight stores templates.npy in DOUBLE precision with values single precision cannot '
        'hold (baseline 64..127 + 2^-28 ripple, no whitening): cluster waveforms must be built from the stored waveforms '
        '(single-template clusters: exactly; means: within 2^-36), the whitened records are the stored values, the '
        'unwhitened ones their single precision rounding (Lean roundNE). One case = one loaded TemplateModel. non-trivial = curated dataset with a cluster stemming '
        'from >= 2 templates')
ASSUMPTIONS = ['the channel list of each template (get_template(t).channel_ids, property C05; whitened for the load-time '
               'cluster waveforms, unwhitened for the public accessor) is observed on the real model, checked with the C05 '
               'model (whole record: channels, columns, amplitudes, against the configured neighbourhood / threshold) and '
               'only then given to the C08 model; the unwhitened waveforms are computed by the C05 model from the stored '
               'templates, the inverse whitening matrix (checked against the stored matrices) and template_scaling',
               'load-time cluster waveforms of clusters stemming from >= 2 templates: |real - exact| <= 2^-18 max(1, |exact|) '
               '(DESIGN 3, multi-step float chain); single-template and empty clusters: exact equality; with double precision '
               'templates.npy the whole chain (np.zeros float64, np.average) is double precision: |real - exact| <= 2^-36 max(1, |exact|) '
               '(<= 6 templates of magnitude < 128: rounding error < 1e-13)',
               'public accessor: integer sums, one correctly rounded division (compared through Fraction, rtol 1e-9)']


def _rec(b):
    return dict(template=np.asarray(b.template, dtype=np.float64).tolist(), channels=[int(c) for c in b.channel_ids],
                amplitude=np.asarray(b.amplitude, dtype=np.float64).tolist(), best=int(b.best_channel))


def impl(case):
    with C.scratch_dir() as d:
        m = D.load(D.write_dataset(d, case['spec']), reopen=bool(case.get('reopen')))
        try:
            nt = int(m.n_templates)
            out = dict(n_templates=nt, n_clusters=int(m.n_clusters),
                       merge_map={str(int(k)): [int(x) for x in v] for k, v in m.merge_map.items()},
                       nan_idx=[int(x) for x in np.asarray(m.nan_idx).ravel()],
                       data=np.asarray(m.sparse_clusters.data, dtype=np.float64).tolist(),
                       same_object=m.sparse_clusters is m.sparse_templates,
                       recs_w=[_rec(m.get_template(t, unwhiten=False)) for t in range(nt)],
                       recs_u=[_rec(m.get_template(t, unwhiten=True)) for t in range(nt)],
                       n_closest=int(m.n_closest_channels), thr=float(m.amplitude_threshold),
                       wmi=np.asarray(m.wmi, dtype=np.float64).tolist())
            means = {}
            for c in case.get('cs', []):
                if c in m.spike_clusters:
                    b = m.get_cluster_mean_waveforms(c)
                    means[str(c)] = dict(channels=[int(x) for x in b.channel_ids],
                                         mean=np.asarray(b.mean_waveforms, dtype=np.float64).tolist(),
                                         # the other route to the dominant template: np.unique + argmax over the
                                         # cluster's spikes (_get_template_from_spikes)
                                         cluster_channels=[int(x) for x in m.get_cluster_channels(c)])
            out['means'] = means
        finally:
            m.close()
    return out


def model_query(case, impl_res):
    spec = case['spec']
    st = spec['spike_templates']
    sc = spec.get('spike_clusters') or st
    W = DC.fracs(spec['templates'])
    if 'ok' not in impl_res:
        return dict(p=PID, op='clusters', W=W, chans=[list(range(spec['n_channels']))] * len(W), st=st, sc=sc,
                    ns=len(W[0]), nc=spec['n_channels'])
    ok = impl_res['ok']
    # the per-template channel lists the cluster means are restricted to are C05's: checked with the C05 model
    # (predicate on the real records, whitened AND unwhitened) instead of being taken on trust from the model under
    # test; neighbourhood size and threshold are the CONFIGURED ones (params.py), not those the loaded object shows
    px = spec.get('params_extra') or {}
    n_closest = int(px.get('n_closest_channels', 12))
    thr = px.get('amplitude_threshold', 0)
    scaling = DC.frac(float(spec.get('template_scaling') or 1.))
    wmi = DC.fracs(ok['wmi'])
    dense = []
    if spec.get('template_ind') is None:
        fl = {'float_store': int(spec['_float_store'])} if spec.get('_float_store') else {}
        for unwh, recs in ((False, ok['recs_w']), (True, ok['recs_u'])):
            for t, rec in enumerate(recs):
                dense.append(dict(fl, p='C05', op='dense', wmi=wmi, scaling=scaling, Tw=DC.fracs(spec['templates'][t]), unwhiten=unwh,
                                  positions=DC.fracs(spec['channel_positions']), shanks=spec.get('channel_shanks'),
                                  n_closest=n_closest, thr=DC.frac(thr), explicit=None,
                                  impl=dict(template=DC.fracs(rec['template']), channels=rec['channels'],
                                            amplitude=DC.fracs(rec['amplitude']), best=rec['best'])))
    return dict(p='C08', op='clusters', W=W, chans=[r['channels'] for r in ok['recs_w']], st=st, sc=sc, ns=len(W[0]), nc=spec['n_channels'],
                _second=dict(p='C08', op='multi', qs=[
                    # the public accessor averages the UNWHITENED templates: computed by the Lean model of _unwhiten from
                    # the stored templates (nothing of the real _unwhiten output enters the model side)
                    dict(p='C08', op='cluster_mean', W=W, unwhiten=dict(wmi=wmi, scaling=scaling),
                         chans=[r['channels'] for r in ok['recs_u']], st=st, sc=sc,
                         cs=[int(c) for c in ok['means']])] + dense))


TOL32 = 2.0 ** -18        # DESIGN 3: multi-step float chain, float32 path
TOL64 = 2.0 ** -36        # double precision templates.npy: the chain is double precision throughout


def _close(got, exact_q, tol=TOL32):
    """|got - exact| <= tol max(1, |exact|), entry by entry (exact = model rationals)"""
    e = np.array([[float(DC.to_fraction(x)) for x in row] for row in exact_q], dtype=np.float64)
    g = np.asarray(got, dtype=np.float64)
    return g.shape == e.shape and bool(np.all(np.abs(g - e) <= tol * np.maximum(1., np.abs(e))))


def judge(case, impl_res, ans):
    if 'err' in ans:
        return 'MACHINERY: driver error %s' % ans['err']
    m = ans['ok']
    if 'raised' in impl_res:
        return 'SPEC: real code raised %s (%s) at %s on an in-domain dataset' % (
            impl_res['raised'], impl_res['msg'], impl_res['where'])
    ok = impl_res['ok']
    spec = case['spec']
    st = spec['spike_templates']
    sc = spec.get('spike_clusters') or st
    bad = DC.check_wmi(spec, ok['wmi'])
    if bad:
        return 'SPEC: ' + bad
    if m['merge_map'] != m['merge_map_spec']:
        return 'MACHINERY: model merge map differs from its spec (contradicts the theorem)'
    curated = sc != st
    if not curated:
        if ok['n_clusters'] != ok['n_templates']:
            return 'SPEC: un-curated dataset has %d clusters for %d templates' % (ok['n_clusters'], ok['n_templates'])
        if ok['data'] != np.asarray(spec['templates'], dtype=(spec.get('dtypes') or {}).get('templates', 'float32')).astype(np.float64).tolist():
            return 'SPEC: un-curated cluster waveforms are not the template waveforms'
        if ok['merge_map'] or ok['nan_idx']:
            return 'CORR: un-curated merge map not empty'
    else:
        exp_mm = {str(c): v for c, v in enumerate(m['merge_map'])}
        if ok['merge_map'] != exp_mm:
            return 'SPEC: merge map differs from {cluster: templates its spikes came from}: %s vs %s' % (ok['merge_map'], exp_mm)
        if ok['nan_idx'] != m['nan_idx']:
            return 'SPEC: ids without spikes %s, reported empty %s' % (m['nan_idx'], ok['nan_idx'])
        if ok['n_clusters'] != m['n_clusters']:
            return 'SPEC: n_clusters %d' % ok['n_clusters']
        if len(ok['data']) != len(m['data']):
            return 'SPEC: cluster waveforms shape'
        for c, (a, M) in enumerate(zip(ok['data'], m['data'])):
            n = len(m['merge_map'][c])
            if n >= 2:
                # a mean computed in floating point: any algebraically equal way of writing it is accepted
                good = _close(a, M, TOL64 if spec.get('_float_store') == 53 else TOL32)
            else:
                good = a == [[DC.to_float(x) for x in row] for row in M]
            if not good:
                return ('SPEC: cluster %d (stemming from %d template(s)) does not carry %s' % (
                    c, n, 'that template\'s waveform unchanged' if n == 1 else 'zeros' if n == 0 else
                    'the spike-count-weighted mean of its templates on the dominant template\'s channels'))
    # public accessor with unwhitening
    if 'err' in ans.get('second', {}):
        return 'MACHINERY: driver error in the second query: %s' % ans['second']['err']
    m2 = ans.get('second', {}).get('ok')
    if m2 is not None:
        nt = len(ok['recs_w'])
        for k, r in enumerate(m2['res'][1:]):
            t, unwh = k % nt, k >= nt
            if 'err' in r:
                return 'MACHINERY: driver error in the channel-list query of template %d: %s' % (t, r['err'])
            if r.get('ptp_exact') is False or (unwh and r.get('one_term') is False):
                continue        # floating-point class: max - min / the dot product rounds on this waveform - no exact verdict
            if r.get('impl_spec') is not True:
                return ('SPEC: the %s record of template %d (channels %s) is not the %stemplate on the nearest same-shank channels '
                        'reaching the threshold, ordered by amplitude (C05), so cluster means are restricted to wrong channels / '
                        'built from wrong waveforms' % ('unwhitened' if unwh else 'whitened', t,
                                                        (ok['recs_u'] if unwh else ok['recs_w'])[t]['channels'],
                                                        'unwhitened ' if unwh else ''))
        if 'err' in m2['res'][0]:
            return 'MACHINERY: driver error in the cluster-mean query: %s' % m2['res'][0]['err']
        m2 = m2['res'][0]
        for (c, got), mm in zip(ok['means'].items(), m2['means']):
            if mm['from_spikes'] != mm['dominant']:
                return 'MACHINERY: the two dominant-template rules of the model differ (contradicts clusterTemplate_eq_dominant)'
            if got['cluster_channels'] != ok['recs_u'][mm['from_spikes']]['channels']:
                return ('SPEC: get_cluster_channels(%s) are not the channels of the dominant template %d (lowest id among the '
                        'templates with the most spikes in the cluster)' % (c, mm['from_spikes']))
            if got['channels'] != mm['channels']:
                return 'SPEC: get_cluster_mean_waveforms(%s) channels are not those of the dominant template' % c
            exp = [[DC.to_float(x) for x in row] for row in mm['mean']]
            if not np.allclose(np.array(got['mean']).reshape(np.array(exp).shape), exp, rtol=1e-9, atol=1e-12):
                return 'SPEC: get_cluster_mean_waveforms(%s) is not the count-weighted mean of the restricted templates' % c
    return None


def nontrivial(case):
    spec = case['spec']
    sc = spec.get('spike_clusters')
    if sc is None:
        return False
    st = spec['spike_templates']
    return any(len({t for t, c2 in zip(st, sc) if c2 == c}) >= 2 for c in set(sc))


def tally(rep, case, impl_res, ans):
    rep.count('template_scaling:%s' % (case['spec'].get('template_scaling') or 1))
    spec = case['spec']
    if spec.get('_float_store'):
        rep.count('templates.npy in double precision, values beyond single precision (baseline + 2^-28 ripple)')
    rep.count('curated:%s' % (spec.get('spike_clusters') is not None and spec['spike_clusters'] != spec['spike_templates']))
    rep.count('shanks:%s' % (spec.get('channel_shanks') is not None))
    rep.count('positions_dtype:%s%s' % ((spec.get('dtypes') or {}).get('channel_positions', 'float64'),
                                       ', probe layout' if spec.get('_probe_layout') else ''))
    rep.count('n_closest_channels:%s' % (spec.get('params_extra') or {}).get('n_closest_channels', '12 (default)'))
    if len(spec['templates']) > 256:
        rep.count('more_than_256_templates, template ids stored as %s' % (spec.get('dtypes') or {}).get('spike_templates', 'uint32'))
    for name in sorted(spec.get('extra_npy') or {}):
        rep.count('near_miss_file_in_directory:' + name)
    if 'ok' in ans:
        mm = ans['ok']['merge_map']
        rep.count('multi_template_clusters', sum(1 for v in mm if len(v) >= 2))
        rep.count('empty_ids', sum(1 for v in mm if not v))


def classify(case, impl_res, ans, why):
    return dict(kind=why.split(':')[0], what=why.split(':')[1].strip()[:45], raised=impl_res.get('raised'))


def shrink(case):
    if len(case.get('cs') or []) > 1:
        for c in case['cs']:
            yield dict(case, cs=[c])


def _float64_case(rng, i):
    """templates.npy in double precision holding values single precision cannot hold, no whitening, no scaling: every
    load-time waveform (whitened path) is the stored double precision one; the public accessor (which averages
    single precision roundings) is not queried"""
    spec = DC.dense_spec(rng, curated=(i % 5 != 0), feats=False, empty=['none', 'last', 'random'][i % 3], whiten='none',
                         nt=rng.randrange(2, 6))
    spec.pop('template_scaling', None)
    spec = DC.inexact_float_spec(rng, spec, store64=True, whiten='none')
    return dict(p=PID, spec=spec, cs=[], reopen=(i % 4 == 2))


def gen(tier, rng):
    q = tier == 'quick'
    for i in range(250 if q else 5000):
        if i % 8 == 3:
            yield _float64_case(rng, i)      # in addition to the single precision datasets
        probe = i % 4 == 1
        spec = DC.dense_spec(rng, curated=(i % 5 != 0), feats=False, empty=['none', 'last', 'random'][i % 3],
                             nc=rng.pick([16, 16, 20]) if probe else None, nt=rng.randrange(2, 5) if probe else None)
        if probe:
            # a probe longer than the neighbourhood, coordinates stored as (small) integers or floats: the channel lists
            # the load-time cluster waveforms are restricted to depend on distances between the sites
            pdt = rng.pick(list(DC.INT_POSITION_DTYPES) + ['int16', 'uint16', 'float32', 'float64'])
            spec['channel_positions'] = DC.probe_positions(rng, spec['n_channels'], pdt)
            spec['dtypes'] = dict(spec.get('dtypes') or {}, channel_positions=pdt)
            spec['_probe_layout'] = True
        sc = spec.get('spike_clusters') or spec['spike_templates']
        yield dict(p=PID, spec=spec, cs=sorted(set(sc))[:6], reopen=(i % 4 == 2))
    # many templates and many curated ids, template ids stored in a narrow dtype the loader accepts (uint16 / int32):
    # products such as template_id * n_clusters do not fit the narrow dtype
    for i in range(2 if q else 12):
        nt = rng.randrange(257, 300)
        ns = nt + rng.randrange(50, 200)
        spec = DC.dense_spec(rng, nt=nt, nc=rng.randrange(2, 5), ns=ns, nsw=2, curated=False, feats=False, empty='none',
                             whiten=rng.pick(['none', 'diag']))
        st = spec['spike_templates']
        sc = list(st)
        nxt = nt + rng.randrange(0, 60)
        for _ in range(rng.randrange(20, 60)):        # merges of two clusters into new (high) ids, some splits
            ids = sorted(set(sc))
            a, b = rng.sample(ids, 2)
            if rng.random() < .7:
                sc = [nxt if c in (a, b) else c for c in sc]
            else:
                ia = [j for j, c in enumerate(sc) if c == a]
                for j in ia[:max(1, len(ia) // 2)]:
                    sc[j] = nxt
            nxt += 1 + (rng.random() < .2)
        spec['spike_clusters'] = sc
        spec['dtypes'] = dict(spec.get('dtypes') or {}, spike_templates=['uint16', 'int32', 'uint16'][i % 3])
        hi = sorted(set(sc))
        yield dict(p=PID, spec=spec, cs=hi[:2] + hi[-4:], reopen=False)
