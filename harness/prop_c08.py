"""C08 — curated clusters get the right template provenance and waveforms (DESIGN.md §5 C08)."""
import numpy as np
from . import common as C
from . import dataset as D
from . import dense_common as DC

PID = 'C08'
PARALLEL = True
BATCH = 100
BUDGET_S = {'quick': 80, 'thorough': 1200}
RULE = ('(spike_templates, spike_clusters) produced by random merge / split / reassign sequences (empty ids, '
        'one-spike clusters, count ties), dense small-integer templates, geometries with and without shanks, '
        'with/without (diagonal dyadic) whitening, plus un-curated datasets incl. a last template without '
        'spikes. One case = one loaded TemplateModel. non-trivial = curated dataset with a cluster stemming '
        'from >= 2 templates')
ASSUMPTIONS = ['the channel list of each template (get_template(t).channel_ids, property C05) is observed on the real '
               'model and given to the Lean model as input',
               'weighted means: integer sums, one correctly rounded division (compared through Fraction)']


def impl(case):
    with C.scratch_dir() as d:
        m = D.load(D.write_dataset(d, case['spec']), reopen=bool(case.get('reopen')))
        try:
            nt = int(m.n_templates)
            out = dict(n_templates=nt, n_clusters=int(m.n_clusters),
                       merge_map={str(int(k)): [int(x) for x in v] for k, v in m.merge_map.items()},
                       nan_idx=[int(x) for x in np.asarray(m.nan_idx).ravel()],
                       data=np.asarray(m.sparse_clusters.data, dtype=np.float64).tolist(),
                       same_object=m.sparse_clusters is m.sparse_templates,
                       chans_w=[[int(c) for c in m.get_template(t, unwhiten=False).channel_ids] for t in range(nt)],
                       recs_w=[(lambda b: dict(template=np.asarray(b.template, dtype=np.float64).tolist(),
                                               channels=[int(c) for c in b.channel_ids],
                                               amplitude=np.asarray(b.amplitude, dtype=np.float64).tolist(),
                                               best=int(b.best_channel)))(m.get_template(t, unwhiten=False)) for t in range(nt)],
                       n_closest=int(m.n_closest_channels), thr=float(m.amplitude_threshold),
                       wmi=np.asarray(m.wmi, dtype=np.float64).tolist(),
                       chans_u=[[int(c) for c in m.get_template(t, unwhiten=True).channel_ids] for t in range(nt)],
                       tmpl_u=[np.asarray(m._unwhiten(m.sparse_templates.data[t]).astype(np.float32), dtype=np.float64).tolist() for t in range(nt)])
            means = {}
            for c in case.get('cs', []):
                if c in m.spike_clusters:
                    b = m.get_cluster_mean_waveforms(c)
                    means[str(c)] = dict(channels=[int(x) for x in b.channel_ids],
                                         mean=np.asarray(b.mean_waveforms, dtype=np.float64).tolist(),
                                         # the other route to the dominant template: np.unique + argmax over the
                                         # cluster's spikes (_get_template_from_spikes)
                                         cluster_channels=[int(x) for x in m.get_cluster_channels(c)])
            out['means'] = means
        finally:
            m.close()
    return out


def model_query(case, impl_res):
    spec = case['spec']
    st = spec['spike_templates']
    sc = spec.get('spike_clusters') or st
    W = DC.fracs(spec['templates'])
    if 'ok' not in impl_res:
        return dict(p=PID, op='clusters', W=W, chans=[list(range(spec['n_channels']))] * len(W), st=st, sc=sc,
                    ns=len(W[0]), nc=spec['n_channels'])
    ok = impl_res['ok']
    # the per-template channel lists the cluster means are restricted to are C05's: checked with the C05
    # model (predicate on the real records) instead of being taken on trust from the model under test
    dense = []
    if spec.get('template_ind') is None:
        for t, rec in enumerate(ok['recs_w']):
            dense.append(dict(p='C05', op='dense', wmi=DC.fracs(ok['wmi']), Tw=DC.fracs(spec['templates'][t]), unwhiten=False,
                              positions=DC.fracs(spec['channel_positions']), shanks=spec.get('channel_shanks'),
                              n_closest=ok['n_closest'], thr=DC.frac(ok['thr']), explicit=None,
                              impl=dict(template=DC.fracs(rec['template']), channels=rec['channels'],
                                        amplitude=DC.fracs(rec['amplitude']), best=rec['best'])))
    return dict(p='C08', op='clusters', W=W, chans=ok['chans_w'], st=st, sc=sc, ns=len(W[0]), nc=spec['n_channels'],
                _second=dict(p='C08', op='multi', qs=[
                    dict(p='C08', op='cluster_mean', W=DC.fracs(ok['tmpl_u']), chans=ok['chans_u'], st=st, sc=sc,
                         cs=[int(c) for c in ok['means']])] + dense))


def judge(case, impl_res, ans):
    if 'err' in ans:
        return 'MACHINERY: driver error %s' % ans['err']
    m = ans['ok']
    if 'raised' in impl_res:
        return 'SPEC: real code raised %s (%s) at %s on an in-domain dataset' % (
            impl_res['raised'], impl_res['msg'], impl_res['where'])
    ok = impl_res['ok']
    spec = case['spec']
    st = spec['spike_templates']
    sc = spec.get('spike_clusters') or st
    if m['merge_map'] != m['merge_map_spec']:
        return 'MACHINERY: model merge map differs from its spec (contradicts the theorem)'
    curated = sc != st
    if not curated:
        if ok['n_clusters'] != ok['n_templates']:
            return 'SPEC: un-curated dataset has %d clusters for %d templates' % (ok['n_clusters'], ok['n_templates'])
        if ok['data'] != np.asarray(spec['templates'], dtype=np.float32).astype(np.float64).tolist():
            return 'SPEC: un-curated cluster waveforms are not the template waveforms'
        if ok['merge_map'] or ok['nan_idx']:
            return 'CORR: un-curated merge map not empty'
    else:
        exp_mm = {str(c): v for c, v in enumerate(m['merge_map'])}
        if ok['merge_map'] != exp_mm:
            return 'SPEC: merge map differs from {cluster: templates its spikes came from}: %s vs %s' % (ok['merge_map'], exp_mm)
        if ok['nan_idx'] != m['nan_idx']:
            return 'SPEC: ids without spikes %s, reported empty %s' % (m['nan_idx'], ok['nan_idx'])
        if ok['n_clusters'] != m['n_clusters']:
            return 'SPEC: n_clusters %d' % ok['n_clusters']
        exp = [[[DC.to_float(x) for x in row] for row in M] for M in m['data']]
        if ok['data'] != exp:
            for c, (a, b) in enumerate(zip(ok['data'], exp)):
                if a != b:
                    n = len(m['merge_map'][c])
                    return ('SPEC: cluster %d (stemming from %d template(s)) does not carry %s' % (
                        c, n, 'that template\'s waveform unchanged' if n == 1 else
                        'the spike-count-weighted mean of its templates on the dominant template\'s channels'))
            return 'SPEC: cluster waveforms shape'
    # public accessor with unwhitening
    if 'err' in ans.get('second', {}):
        return 'MACHINERY: driver error in the second query: %s' % ans['second']['err']
    m2 = ans.get('second', {}).get('ok')
    if m2 is not None:
        for t, r in enumerate(m2['res'][1:]):
            if 'err' in r:
                return 'MACHINERY: driver error in the channel-list query of template %d: %s' % (t, r['err'])
            if r.get('impl_spec') is not True:
                return ('SPEC: the channel list of template %d (%s) is not the nearest same-shank channels reaching the '
                        'threshold, ordered by amplitude (C05), so cluster means are restricted to wrong channels' % (t, ok['recs_w'][t]['channels']))
        if 'err' in m2['res'][0]:
            return 'MACHINERY: driver error in the cluster-mean query: %s' % m2['res'][0]['err']
        m2 = m2['res'][0]
        for (c, got), mm in zip(ok['means'].items(), m2['means']):
            if mm['from_spikes'] != mm['dominant']:
                return 'MACHINERY: the two dominant-template rules of the model differ (contradicts clusterTemplate_eq_dominant)'
            if got['cluster_channels'] != ok['chans_u'][mm['from_spikes']]:
                return ('SPEC: get_cluster_channels(%s) are not the channels of the dominant template %d (lowest id among the '
                        'templates with the most spikes in the cluster)' % (c, mm['from_spikes']))
            if got['channels'] != mm['channels']:
                return 'SPEC: get_cluster_mean_waveforms(%s) channels are not those of the dominant template' % c
            exp = [[DC.to_float(x) for x in row] for row in mm['mean']]
            if not np.allclose(np.array(got['mean']).reshape(np.array(exp).shape), exp, rtol=1e-9, atol=1e-12):
                return 'SPEC: get_cluster_mean_waveforms(%s) is not the count-weighted mean of the restricted templates' % c
    return None


def nontrivial(case):
    spec = case['spec']
    sc = spec.get('spike_clusters')
    if sc is None:
        return False
    st = spec['spike_templates']
    return any(len({t for t, c2 in zip(st, sc) if c2 == c}) >= 2 for c in set(sc))


def tally(rep, case, impl_res, ans):
    rep.count('template_scaling:%s' % (case['spec'].get('template_scaling') or 1))
    spec = case['spec']
    rep.count('curated:%s' % (spec.get('spike_clusters') is not None and spec['spike_clusters'] != spec['spike_templates']))
    rep.count('shanks:%s' % (spec.get('channel_shanks') is not None))
    if len(spec['templates']) > 256:
        rep.count('more_than_256_templates, template ids stored as %s' % (spec.get('dtypes') or {}).get('spike_templates', 'uint32'))
    for name in sorted(spec.get('extra_npy') or {}):
        rep.count('near_miss_file_in_directory:' + name)
    if 'ok' in ans:
        mm = ans['ok']['merge_map']
        rep.count('multi_template_clusters', sum(1 for v in mm if len(v) >= 2))
        rep.count('empty_ids', sum(1 for v in mm if not v))


def classify(case, impl_res, ans, why):
    return dict(kind=why.split(':')[0], what=why.split(':')[1].strip()[:45], raised=impl_res.get('raised'))


def gen(tier, rng):
    q = tier == 'quick'
    for i in range(250 if q else 5000):
        spec = DC.dense_spec(rng, curated=(i % 5 != 0), feats=False, empty=['none', 'last', 'random'][i % 3])
        sc = spec.get('spike_clusters') or spec['spike_templates']
        yield dict(p=PID, spec=spec, cs=sorted(set(sc))[:6], reopen=(i % 4 == 2))
    # many templates and many curated ids, template ids stored in a narrow dtype the loader accepts (uint16 / int32):
    # products such as template_id * n_clusters do not fit the narrow dtype
    for i in range(2 if q else 12):
        nt = rng.randrange(257, 300)
        ns = nt + rng.randrange(50, 200)
        spec = DC.dense_spec(rng, nt=nt, nc=rng.randrange(2, 5), ns=ns, nsw=2, curated=False, feats=False, empty='none',
                             whiten=rng.pick(['none', 'diag']))
        st = spec['spike_templates']
        sc = list(st)
        nxt = nt + rng.randrange(0, 60)
        for _ in range(rng.randrange(20, 60)):        # merges of two clusters into new (high) ids, some splits
            ids = sorted(set(sc))
            a, b = rng.sample(ids, 2)
            if rng.random() < .7:
                sc = [nxt if c in (a, b) else c for c in sc]
            else:
                ia = [j for j, c in enumerate(sc) if c == a]
                for j in ia[:max(1, len(ia) // 2)]:
                    sc[j] = nxt
            nxt += 1 + (rng.random() < .2)
        spec['spike_clusters'] = sc
        spec['dtypes'] = dict(spec.get('dtypes') or {}, spike_templates=['uint16', 'int32', 'uint16'][i % 3])
        hi = sorted(set(sc))
        yield dict(p=PID, spec=spec, cs=hi[:2] + hi[-4:], reopen=False)
