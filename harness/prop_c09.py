"""C09 — amplitude, depth, duration and peak-channel summaries (DESIGN.md §5 C09)."""
from fractions import Fraction
import numpy as np
from . import common as C
from . import dataset as D
from . import dense_common as DC

PID = 'C09'
PARALLEL = True
BATCH = 100
BUDGET_S = {'quick': 80, 'thorough': 1200}
RULE = ('dense datasets with small-integer templates, absent / diagonal dyadic whitening (inverse supplied or '
        'computed), dyadic non-negative amplitudes, features whose positive part may vanish, templates or '
        'clusters without spikes at first / middle / last position, unit factors 1, 2.5, sampling rates, '
        'curated and un-curated clusters. One case = one loaded TemplateModel queried for all summaries. '
        'non-trivial = every case (>= 3 spikes, >= 2 templates)')
ASSUMPTIONS = ['exact-arithmetic model; the generated values make every float operation of the real code exact or '
               'a single correctly rounded division, compared through fractions.Fraction; rescaled templates and '
               'curated-cluster chains use a relative tolerance of 1e-9; two-step chains (mean x factor, samples / rate x 1000) 2^-40',
               'np.linalg.inv of a diagonal power-of-two matrix is exact']


def impl(case):
    with C.scratch_dir() as d:
        m = D.load(D.write_dataset(d, case['spec']), reopen=bool(case.get('reopen')))
        try:
            if case.get('only_depths'):
                dep = m.get_depths()
                return dict(depths=None if dep is None else [None if np.isnan(x) else float(x) for x in dep])
            out = dict(n_templates=int(m.n_templates), n_clusters=int(m.n_clusters))
            for use in ('templates', 'clusters'):
                try:
                    sa, phys, av = m.get_amplitudes_true(sample2unit=case['factor'], use=use)
                    out['amps_' + use] = dict(spike=np.asarray(sa).tolist(), v=[None if np.isnan(x) else float(x) for x in av],
                                              phys=np.where(np.isnan(phys), None, phys).tolist(),
                                              wfs=np.asarray(m.sparse_templates.data if use == 'templates' else m.sparse_clusters.data, dtype=np.float64).tolist(),
                                              spikes=[int(x) for x in (m.spike_templates if use == 'templates' else m.spike_clusters)])
                except Exception as e:  # noqa
                    import traceback
                    out['amps_' + use] = dict(raised=type(e).__name__, msg=str(e)[:200])
            out['templates_amplitudes'] = [float(x) for x in m.templates_amplitudes]
            out['clusters_amplitudes'] = [float(x) for x in m.clusters_amplitudes]
            out['templates_channels'] = [int(x) for x in m.templates_channels]
            out['clusters_channels'] = [int(x) for x in m.clusters_channels]
            out['templates_probes'] = [int(x) for x in m.templates_probes]
            out['channel_probes'] = [int(x) for x in m.channel_probes]
            out['templates_durations'] = [float(x) for x in m.templates_waveforms_durations]
            out['clusters_durations'] = [float(x) for x in m.clusters_waveforms_durations]
            dep = m.get_depths()
            out['depths'] = None if dep is None else [None if np.isnan(x) else float(x) for x in dep]
            out['wmi'] = np.asarray(m.wmi, dtype=np.float64).tolist()
            out['chans_w'] = [[int(c) for c in m.get_template(t, unwhiten=False).channel_ids] for t in range(int(m.n_templates))]
        finally:
            m.close()
    return out


def model_query(case, impl_res):
    """several Lean queries in one: op 'multi'"""
    spec = case['spec']
    q = dict(p=PID, op='multi', qs=[])
    if 'ok' not in impl_res:
        return dict(p=PID, op='mean_amps', ids=[0], amplitudes=[1])
    ok = impl_res['ok']
    amps = DC.fracs(spec['amplitudes'])
    qs = []
    if case.get('only_depths'):
        qs.append(dict(op='depths', feat0=DC.fracs([[row for row in f[0]] for f in spec['pc_features']]),
                       cols=spec['pc_feature_ind'], ys=DC.fracs([p[1] for p in spec['channel_positions']]),
                       spike_templates=spec['spike_templates']))
        q['qs'] = qs
        return q
    wmi = DC.fracs(ok['wmi'])
    for use in ('templates', 'clusters'):
        a = ok['amps_' + use]
        if 'raised' in a:
            qs += [dict(op='mean_amps', ids=[0], amplitudes=[1])] * 3
            continue
        # the unit factor and the sampling rate go to the Lean model as exact rationals: the model returns the
        # RETURN VALUES of get_amplitudes_true and the durations in milliseconds
        qs.append(dict(op='amps', wfs=DC.fracs(a['wfs']), wmi=wmi, amplitudes=amps, spikes=a['spikes'],
                       factor=DC.frac(case['factor'])))
        qs.append(dict(op='channels', wfs=DC.fracs(a['wfs']), rate=DC.frac(spec['sample_rate'])))
        # the property's own predicate on the REAL rescaled waveforms: their peak amplitude, computed by Lean
        qs.append(dict(op='peak_amps', wfs=[DC.fracs(W) for W in a['phys'] if _finite(W)]))
    qs.append(dict(op='mean_amps', ids=spec['spike_templates'], amplitudes=amps))
    qs.append(dict(op='mean_amps', ids=spec.get('spike_clusters') or spec['spike_templates'], amplitudes=amps))
    if spec.get('pc_features') is not None:
        qs.append(dict(op='depths', feat0=DC.fracs([[row for row in f[0]] for f in spec['pc_features']]),
                       cols=spec['pc_feature_ind'], ys=DC.fracs([p[1] for p in spec['channel_positions']]),
                       spike_templates=spec['spike_templates']))
    if 'chans_w' in ok:
        # the cluster waveforms the cluster summaries are computed from, against the C08 model
        st8 = spec['spike_templates']
        q['_second'] = dict(p='C08', op='clusters', W=DC.fracs(spec['templates']), chans=ok['chans_w'], st=st8,
                            sc=spec.get('spike_clusters') or st8, ns=len(spec['templates'][0]), nc=spec['n_channels'])
    q['qs'] = qs
    return q


TOL = 2. ** -40      # DESIGN §3: relative tolerance for two-step float chains


def _finite(W):
    return all(x is not None and abs(x) != float('inf') for row in W for x in row)


def _close(a, b, tol):
    if a is None or b is None:
        return a is None and b is None
    return abs(a - b) <= tol * max(1., abs(b))


def judge(case, impl_res, ans):
    if 'err' in ans:
        return 'MACHINERY: driver error %s' % ans['err']
    if 'raised' in impl_res:
        return 'SPEC: real code raised %s (%s) at %s while loading/querying an in-domain dataset' % (
            impl_res['raised'], impl_res['msg'], impl_res['where'])
    ok = impl_res['ok']
    res = ans['ok']['res']
    spec = case['spec']
    if 'wmi' in ok:
        bad = DC.check_wmi(spec, ok['wmi'])
        if bad:
            return 'SPEC: ' + bad
    # the arrays the model's formulas are evaluated on are the STORED arrays (not merely whatever the loaded
    # object shows): template waveforms and spike-template assignment as written to disk
    at = ok.get('amps_templates') or {}
    if 'wfs' in at:
        if at['wfs'] != np.asarray(spec['templates'], dtype=np.float32).astype(np.float64).tolist():
            return 'SPEC: the template waveforms the summaries are computed from differ from the stored templates.npy'
        if at['spikes'] != list(spec['spike_templates']):
            return 'SPEC: the spike-template assignment the summaries are computed from differs from the stored one'
    curated = spec.get('spike_clusters') is not None and spec['spike_clusters'] != spec['spike_templates']
    if 'err' in ans.get('second', {}):
        return 'MACHINERY: driver error in the cluster-waveform query: %s' % ans['second']['err']
    c08 = ans.get('second', {}).get('ok')
    if curated and c08 is not None and 'wfs' in (ok.get('amps_clusters') or {}):
        exp_cw = [[[DC.to_float(x) for x in row] for row in M] for M in c08['data']]
        if ok['amps_clusters']['wfs'] != exp_cw:
            return 'SPEC: the cluster waveforms the summaries are computed from are not the count-weighted template means (C08)'
    ac = ok.get('amps_clusters') or {}
    if 'spikes' in ac and ac['spikes'] != list(spec.get('spike_clusters') or spec['spike_templates']):
        return 'SPEC: the spike-cluster assignment the summaries are computed from differs from the stored one'
    f = case['factor']
    sr = spec['sample_rate']
    curated = spec.get('spike_clusters') is not None and spec['spike_clusters'] != spec['spike_templates']
    k = 0
    if case.get('only_depths'):
        exp = [DC.to_float(x) for x in res[0]['model']]
        if ok['depths'] is None or len(ok['depths']) != len(exp) or \
                not all(_close(x, y, 1e-12) for x, y in zip(ok['depths'], exp)):
            bad = [i for i, (x, y) in enumerate(zip(ok['depths'] or [], exp)) if not _close(x, y, 1e-12)][:3]
            return 'SPEC: spike depths differ from the feature-weighted channel depths at spikes %s of %d' % (bad, len(exp))
        return None
    for use in ('templates', 'clusters'):
        a = ok['amps_' + use]
        if 'raised' in a:
            return 'SPEC: get_amplitudes_true(use=%r) raised %s (%s)' % (use, a['raised'], a['msg'])
        m = res[k]; ch = res[k + 1]
        if use == 'templates':
            tpl_peaks = ch['peak']
        real_peaks = iter(res[k + 2]['peaks'])
        k += 3
        if m['amps_v'] != m['amps_v_spec']:
            return 'MACHINERY: model amplitudes differ from the mean-over-members spec (contradicts the theorem)'
        if ch['durations_ms'] != ch['durations_ms_spec']:
            return 'MACHINERY: model durations (flat-index route) differ from the per-waveform formula (contradicts the theorem)'
        # exact-arithmetic domain: un-curated data (small integers / dyadic values). There the returned spike
        # amplitudes are exact products; the per-id means are ONE correctly rounded division when the factor is 1,
        # and a division followed by a multiplication otherwise (compared with the relative tolerance 2^-40 of
        # DESIGN §3). Curated cluster waveforms are floating-point weighted means: 1e-9.
        inexact = use == 'clusters' and curated
        tol = 1e-9 if inexact else 0.
        tol_v = 1e-9 if inexact else (0. if f == 1 else TOL)
        exp_spike = [DC.to_float(x) for x in m['spike_amps']]
        if len(a['spike']) != len(exp_spike) or not all(_close(x, y, tol) for x, y in zip(a['spike'], exp_spike)):
            return 'SPEC: scaled spike amplitudes (%s) differ from amplitude x largest unwhitened peak-to-peak x factor' % use
        exp_v = [DC.to_float(x) for x in m['amps_v']]
        if len(a['v']) != len(exp_v) or not all(_close(x, y, tol_v) for x, y in zip(a['v'], exp_v)):
            return 'SPEC: per-%s amplitudes differ from the mean over member spikes (NaN for ids without spikes): %s vs %s' % (
                use[:-1], a['v'], exp_v)
        # rescaled templates have exactly that peak amplitude
        if len(a['phys']) != len(m['rescaled']):
            return 'SPEC: %d rescaled %s for %d ids' % (len(a['phys']), use, len(m['rescaled']))
        for t, (ph, pk) in enumerate(zip(a['phys'], m['rescaled_peak'])):
            if pk is None:
                if _finite(ph):
                    next(real_peaks)
                # no spike: the returned waveform is NaN everywhere (a flat waveform WITH spikes divides by
                # zero, which the property does not speak about)
                if m['amps_v'][t] is None and any(x is not None for row in ph for x in row):
                    return 'SPEC: rescaled %s %d has no spikes but is not NaN everywhere' % (use[:-1], t)
                continue
            if not _finite(ph):
                return 'SPEC: rescaled %s %d has spikes and a non-flat waveform but holds NaN/inf' % (use[:-1], t)
            peak = DC.to_float(next(real_peaks))         # largest channel peak-to-peak of the REAL returned waveform
            if not _close(peak, a['v'][t], 1e-9):
                return 'SPEC: rescaled %s %d has peak amplitude %r, but its returned mean spike amplitude is %r' % (
                    use[:-1], t, peak, a['v'][t])
            # ... and is, entry by entry, the unwhitened waveform x (mean amplitude / arbitrary-unit amplitude) x factor
            R = m['rescaled'][t]
            if len(ph) != len(R) or any(len(r1) != len(r2) for r1, r2 in zip(ph, R)) or \
                    not all(_close(x, DC.to_float(y), 1e-9) for r1, r2 in zip(ph, R) for x, y in zip(r1, r2)):
                return 'SPEC: rescaled %s %d is not the unwhitened waveform scaled to its mean spike amplitude' % (use[:-1], t)
        got_ch = ok[use + '_channels']
        got_d = ok[use + '_durations']
        nw = len(ch['peak'])
        if len(got_ch) != nw or len(got_d) != nw:
            return 'SPEC: %d peak channels / %d durations for %d %s waveforms' % (len(got_ch), len(got_d), nw, use[:-1])
        if not inexact:
            if got_ch != ch['peak']:
                return 'SPEC: %s_channels differ from the first arg-max of the per-channel peak-to-peak' % use
            exp_d = [DC.to_float(x) for x in ch['durations_ms']]
            if not all(_close(x, y, TOL) for x, y in zip(got_d, exp_d)):
                return 'SPEC: %s waveform durations %s differ from (argmax - argmin) on the peak channel in ms %s' % (use, got_d, exp_d)
        else:
            # floating-point weighted means: a channel whose exact peak-to-peak is within 2^-40 of the largest one
            # is accepted as peak channel (rounding of max - min may break such a tie either way); the duration
            # must be the one of the REPORTED channel (arg-max / arg-min along time compare stored values: exact)
            for t in range(nw):
                if got_ch[t] not in ch['near_peaks'][t]:
                    return 'SPEC: clusters_channels[%d] = %d is not a channel of largest peak-to-peak %s' % (t, got_ch[t], ch['near_peaks'][t])
                if not _close(got_d[t], DC.to_float(ch['dur_table_ms'][t][got_ch[t]]), TOL):
                    return 'SPEC: clusters waveform duration %d differs from (argmax - argmin) on the peak channel in ms' % t
    # probe of the peak channel: the STORED probe table (all zeros when the dataset has none) at the MODEL's peak channel
    stored_probes = list(spec.get('channel_probes') or [0] * spec['n_channels'])
    if ok['channel_probes'] != stored_probes:
        return 'SPEC: channel_probes %s differ from the stored table %s' % (ok['channel_probes'], stored_probes)
    if ok['templates_probes'] != [stored_probes[c] for c in tpl_peaks]:
        return 'SPEC: templates_probes is not the probe of the peak channel'
    for key in ('templates_amplitudes', 'clusters_amplitudes'):
        exp = [DC.to_float(x[1]) for x in res[k]['model']]; k += 1
        if ok[key] != exp:
            return 'SPEC: %s differs from the mean stored amplitude per id present' % key
    if spec.get('pc_features') is not None:
        exp = [DC.to_float(x) for x in res[k]['model']]; k += 1
        if ok['depths'] is None or len(ok['depths']) != len(exp) or \
                not all(_close(x, y, 1e-12) for x, y in zip(ok['depths'], exp)):
            return 'SPEC: spike depths differ from the feature-weighted channel depths: %s vs %s' % (ok['depths'], exp)
    return None


def nontrivial(case):
    return True


def tally(rep, case, impl_res, ans):
    if case.get('reopen'):
        rep.count('second_model_on_the_directory')
    spec = case['spec']
    rep.count('curated:%s' % (spec.get('spike_clusters') is not None))
    wh = spec.get('whitening')
    if wh is None and spec.get('whitening_inv') is not None:
        rep.count('whitening:inverse_file_only')
    else:
        rep.count('whitening:%s%s' % ('none' if wh is None else ('nonsymmetric_' if any(wh[i][j] != wh[j][i] for i in range(len(wh)) for j in range(len(wh))) else 'diagonal_'), '' if wh is None else ('inv_file' if spec.get('whitening_inv') is not None else 'computed_inv')))
    nt = len(spec['templates'])
    used = set(spec['spike_templates'])
    for t, name in ((0, 'first'), (nt - 1, 'last')):
        if t not in used:
            rep.count('template_without_spikes:' + name)
    if any(t not in used for t in range(1, nt - 1)):
        rep.count('template_without_spikes:middle')
    rep.count('factor:%s' % case['factor'])


def classify(case, impl_res, ans, why):
    spec = case['spec']
    nt = len(spec['templates'])
    return dict(kind=why.split(':')[0], what=why.split(':')[1].strip()[:45],
                last_template_empty=(nt - 1) not in set(spec['spike_templates']),
                curated=spec.get('spike_clusters') is not None, raised=impl_res.get('raised'))


def gen(tier, rng):
    q = tier == 'quick'
    for i in range(250 if q else 5000):
        empty = ['none', 'first', 'middle', 'last'][i % 4] if i < 60 else 'random'
        spec = DC.dense_spec(rng, empty=empty, feats=(i % 5 != 4), probes=(i % 3 == 0))
        yield dict(p=PID, spec=spec, factor=[1., 2.5, 1.][i % 3], reopen=(i % 4 == 1))
    # get_depths works in batches of 50000 spikes: one more than a full batch, and exactly one batch
    for ns in ((50001,) if q else (50001, 50000, 100001)):
        spec = DC.dense_spec(rng, nt=3, nc=3, ns=ns, nsw=2, curated=False, whiten='none', feats=True, empty='none')
        spec['pc_features'] = [[[float((i * 7 + k) % 5 + (0 if i % 11 == 3 else 1)) for k in range(2)], [0., 0.]] for i in range(ns)]
        spec['pc_feature_ind'] = [[0, 1], [1, 2], [2, 0]]
        spec['spike_samples'] = list(range(ns))
        yield dict(p=PID, spec=spec, factor=1., only_depths=True)
