"""C09 — amplitude, depth, duration and peak-channel summaries (DESIGN.md §5 C09)."""
from fractions import Fraction
import numpy as np
from . import common as C
from . import dataset as D
from . import dense_common as DC

PID = 'C09'
PARALLEL = True
BATCH = 100
BUDGET_S = {'quick': 80, 'thorough': 1200}
RULE = ('dense datasets with small-integer templates, absent / diagonal dyadic / unit-triangular whitening (inverse '
        'supplied or computed), dyadic non-negative amplitudes, features whose positive part may vanish (2..3 '
        'components, channel lists with or without repeats), templates or clusters without spikes at first / middle / '
        'last position, unit factors 1, 2.5, sampling rates, curated and un-curated clusters, id / amplitude / '
        'template dtypes; a class with a negative or zero unit factor or negative stored amplitudes (the clause '
        '"exactly that peak amplitude" is then judged as |amplitude|, see rescaledUnit_peak_abs); a class of '
        'un-curated datasets with real-valued (normal) templates, dense whitening, amplitudes and features, compared '
        'with a float32-level tolerance. One case = one loaded TemplateModel queried for all summaries; the arrays '
        'each summary is computed from are selected by the Lean model from the STORED files. '
        'non-trivial = every case (>= 3 spikes, >= 2 templates)')
ASSUMPTIONS = ['exact-arithmetic model; the generated values make every float operation of the real code exact or '
               'a single correctly rounded division, compared through fractions.Fraction; rescaled templates and '
               'curated-cluster chains use a relative tolerance of 1e-9; two-step chains (mean x factor, samples / rate x 1000) 2^-40',
               'np.linalg.inv of a diagonal power-of-two matrix is exact',
               'real-valued class (case["real"]): the Lean model gets the STORED values (after the dtype of the file) as '
               'exact rationals; the real float32 / float64 chain is compared with an absolute tolerance of 1e-5 x the '
               'largest magnitude involved (float32 rounding is 6e-8), peak channels within that tolerance of the '
               'largest peak-to-peak are all accepted',
               'feature stores have >= 2 components and >= 2 local channels: a size-1 axis of pc_features.npy is squeezed away by '
               '_read_array and the 2-D remainder (n_spikes, k) is ambiguous; the real loader reads it as k components on ONE local '
               'channel, so a one-component file on k channels fails the shape assertion at load (AssertionError) - outside the '
               'quantifier, not generated, not judged',
               'the per-template channel lists (get_template(t, unwhiten=False).channel_ids, property C05) that curated '
               'cluster means are restricted to are observed on the real model (validated by ./check C08 with the C05 model)']


def impl(case):
    with C.scratch_dir() as d:
        m = D.load(D.write_dataset(d, case['spec']), reopen=bool(case.get('reopen')))
        try:
            if case.get('only_depths'):
                dep = m.get_depths()
                return dict(depths=None if dep is None else [None if np.isnan(x) else float(x) for x in dep])
            out = dict(n_templates=int(m.n_templates), n_clusters=int(m.n_clusters))
            for use in ('templates', 'clusters'):
                try:
                    sa, phys, av = m.get_amplitudes_true(sample2unit=case['factor'], use=use)
                    out['amps_' + use] = dict(spike=np.asarray(sa).tolist(), v=[None if np.isnan(x) else float(x) for x in av],
                                              phys=np.where(np.isnan(phys), None, phys).tolist(),
                                              wfs=np.asarray(m.sparse_templates.data if use == 'templates' else m.sparse_clusters.data, dtype=np.float64).tolist(),
                                              spikes=[int(x) for x in (m.spike_templates if use == 'templates' else m.spike_clusters)])
                except Exception as e:  # noqa
                    import traceback
                    out['amps_' + use] = dict(raised=type(e).__name__, msg=str(e)[:200])
            out['templates_amplitudes'] = [float(x) for x in m.templates_amplitudes]
            out['clusters_amplitudes'] = [float(x) for x in m.clusters_amplitudes]
            out['templates_channels'] = [int(x) for x in m.templates_channels]
            out['clusters_channels'] = [int(x) for x in m.clusters_channels]
            out['templates_probes'] = [int(x) for x in m.templates_probes]
            out['channel_probes'] = [int(x) for x in m.channel_probes]
            out['templates_durations'] = [float(x) for x in m.templates_waveforms_durations]
            out['clusters_durations'] = [float(x) for x in m.clusters_waveforms_durations]
            dep = m.get_depths()
            out['depths'] = None if dep is None else [None if np.isnan(x) else float(x) for x in dep]
            out['wmi'] = np.asarray(m.wmi, dtype=np.float64).tolist()
            out['chans_w'] = [[int(c) for c in m.get_template(t, unwhiten=False).channel_ids] for t in range(int(m.n_templates))]
        finally:
            m.close()
    return out


def _stored(spec, key):
    """the values of a file as the dataset writer stores them (after the dtype of the file), as float64"""
    dt = dict(D.DEFAULT_DTYPES)
    dt.update(spec.get('dtypes') or {})
    return np.array(spec[key], dtype=dt[key]).astype(np.float64)


def _depth_query(spec):
    F = _stored(spec, 'pc_features')
    return dict(op='depths', feat0=DC.fracs(F[:, 0, :]), cols=spec['pc_feature_ind'],
                ys=DC.fracs([p[1] for p in spec['channel_positions']]), spike_templates=spec['spike_templates'])


def _scales(case, ok):
    """real-valued class only: magnitudes the float32-level tolerances are relative to (NOT expected values)"""
    spec = case['spec']
    T = _stored(spec, 'templates')
    U = T @ np.asarray(ok['wmi'], dtype=np.float64)
    A = float(np.max(np.abs(_stored(spec, 'amplitudes')))) if len(spec['amplitudes']) else 0.
    return dict(maxT=max(1., float(np.max(np.abs(T)))), maxU=max(1., float(np.max(np.abs(U)))),
                amp=max(1., float(np.max(np.abs(U))) * A * abs(case['factor'])))


REL32 = 1e-5         # real-valued class: tolerance relative to the largest magnitude involved (float32 rounding: 6e-8)


def model_query(case, impl_res):
    """several Lean queries in one: op 'multi'"""
    spec = case['spec']
    q = dict(p=PID, op='multi', qs=[])
    if 'ok' not in impl_res:
        return dict(p=PID, op='mean_amps', ids=[0], amplitudes=[1])
    ok = impl_res['ok']
    if case.get('only_depths'):
        q['qs'] = [_depth_query(spec)]
        return q
    # ONE query holds the STORED arrays: templates.npy, spike_templates.npy, spike_clusters.npy, amplitudes.npy, the
    # probe table, the unit factor and the sampling rate as exact rationals.  Which waveforms / assignment / number
    # of ids each id space uses is decided by the Lean model (Model/C09c `useArrays`, through C08 `loadClusters`);
    # nothing of that is read back from the loaded object.  Observed on the real model: the inverse whitening
    # matrix (checked against the stored matrices in `judge`) and the per-template channel lists of C05.
    T = _stored(spec, 'templates')
    nc = spec['n_channels']
    st = spec['spike_templates']
    wm = spec['whitening'] if spec.get('whitening') is not None else [[1. if i == j else 0. for j in range(nc)] for i in range(nc)]
    qs = [dict(op='summaries', templates=DC.fracs(T), chans=ok['chans_w'], st=st, sc=spec.get('spike_clusters') or st,
               ns=int(T.shape[1]), nc=nc, wmi=DC.fracs(ok['wmi']), wm=DC.fracs(wm), amplitudes=DC.fracs(_stored(spec, 'amplitudes')),
               factor=DC.frac(case['factor']), rate=DC.frac(spec['sample_rate']),
               probes=[int(x) for x in (spec.get('channel_probes') or [0] * nc)],
               eps=DC.frac(REL32 * _scales(case, ok)['maxT'] if case.get('real') else 0.))]
    for use in ('templates', 'clusters'):
        a = ok['amps_' + use]
        # the property's own predicate on the REAL rescaled waveforms: their peak amplitude, computed by Lean
        qs.append(dict(op='peak_amps', wfs=[] if 'raised' in a else [DC.fracs(W) for W in a['phys'] if _finite(W)]))
    if spec.get('pc_features') is not None:
        qs.append(_depth_query(spec))
    q['qs'] = qs
    return q


TOL = 2. ** -40      # DESIGN §3: relative tolerance for two-step float chains


def _finite(W):
    return all(x is not None and abs(x) != float('inf') for row in W for x in row)


def _close(a, b, tol):
    if a is None or b is None:
        return a is None and b is None
    return abs(a - b) <= tol * max(1., abs(b))


def _near(a, b, abs_tol):
    if a is None or b is None:
        return a is None and b is None
    return abs(a - b) <= abs_tol


def _floats(M):
    return [[[DC.to_float(x) for x in row] for row in W] for W in M]


def judge(case, impl_res, ans):
    if 'err' in ans:
        return 'MACHINERY: driver error %s' % ans['err']
    if 'raised' in impl_res:
        return 'SPEC: real code raised %s (%s) at %s while loading/querying an in-domain dataset' % (
            impl_res['raised'], impl_res['msg'], impl_res['where'])
    ok = impl_res['ok']
    res = ans['ok']['res']
    spec = case['spec']
    real = bool(case.get('real'))
    if case.get('only_depths'):
        exp = [DC.to_float(x) for x in res[0]['model']]
        if ok['depths'] is None or len(ok['depths']) != len(exp) or \
                not all(_close(x, y, 1e-12) for x, y in zip(ok['depths'], exp)):
            bad = [i for i, (x, y) in enumerate(zip(ok['depths'] or [], exp)) if not _close(x, y, 1e-12)][:3]
            return 'SPEC: spike depths differ from the feature-weighted channel depths at spikes %s of %d' % (bad, len(exp))
        return None
    S = res[0]
    # "unwhitened": the inverse whitening matrix the model multiplies by.  The Lean model decides exactly whether it
    # inverts the STORED whitening matrix (hypothesis `Unwhitens` of the theorem `unwhiten_whitened`); a computed
    # inverse that is an inverse only up to rounding is accepted within 1e-9 (check_wmi); with a stored inverse the
    # model must show that file.
    if spec.get('whitening_inv') is not None or S['unwhitens'] is not True:
        bad = DC.check_wmi(spec, ok['wmi'])
        if bad:
            return 'SPEC: ' + bad
    sc = dict(maxT=1., maxU=1., amp=1.)
    if real:
        sc = _scales(case, ok)
    f = case['factor']
    curated = spec.get('spike_clusters') is not None and spec['spike_clusters'] != spec['spike_templates']
    # the sign conditions of the clause "the rescaled templates have exactly that peak amplitude" (rescaledUnit_peak);
    # without them the peak amplitude is the ABSOLUTE VALUE of the returned amplitude (rescaledUnit_peak_abs)
    signed = f < 0 or any(x < 0 for x in spec['amplitudes'])
    k = 1
    tpl_peaks = None
    for use in ('templates', 'clusters'):
        a = ok['amps_' + use]
        U = S[use]
        one = use[:-1]
        if U['amps'] is None and any(x >= U['id_count'] for x in U['spikes']):
            # a spike id beyond the id space (hypothesis `hin` of ampsUse_spec fails; the model says IndexError,
            # amplitudesTrueUse_none): outside the property, and not reachable through a dataset that loads
            if 'raised' in a and a['raised'] == 'IndexError':
                return None
            return 'CORR: get_amplitudes_true(use=%r) with a spike id beyond the id space: the model says IndexError, the real code %s' % (
                use, ('raised ' + a['raised']) if 'raised' in a else 'returned')
        if 'raised' in a:
            return 'SPEC: get_amplitudes_true(use=%r) raised %s (%s)' % (use, a['raised'], a['msg'])
        m = U['amps']; ch = U['channels']
        real_peaks = iter(res[k]['peaks'])
        k += 1
        # ---- consistency of my own model with its theorems
        n_ids = U['id_count']
        if U['n_wav'] != n_ids or len(U['wfs']) != n_ids or m is None:
            return 'MACHINERY: model id space (%s): n_wav %d, %d waveforms, id count %d (contradicts useArrays_clusters_spec / amplitudesTrueUse_defined)' % (
                use, U['n_wav'], len(U['wfs']), n_ids)
        if m['amps_v'] != m['amps_v_spec']:
            return 'MACHINERY: model amplitudes differ from the mean-over-members spec (contradicts the theorem)'
        if U['no_spikes'] != [t for t, x in enumerate(m['amps_v']) if x is None]:
            return 'MACHINERY: the NaN entries of the model are not the ids absent from the stored assignment (contradicts ampsUse_spec)'
        if ch['durations_ms'] != ch['durations_ms_spec']:
            return 'MACHINERY: model durations (flat-index route) differ from the per-waveform formula (contradicts the theorem)'
        # ---- the id space: how many ids, which assignment, which waveforms — decided from the STORED arrays
        n_real = ok['n_' + use]
        if n_real != n_ids:
            return 'SPEC: the model declares %d %s, the stored arrays give %d (%s)' % (
                n_real, use, n_ids, 'one per id from 0 to the highest cluster id' if use == 'clusters' and curated else 'one per template')
        if a['spikes'] != U['spikes']:
            return 'SPEC: the spike-%s assignment the summaries are computed from differs from the stored one' % one
        if a['wfs'] != _floats(U['wfs']):
            if use == 'templates':
                return 'SPEC: the template waveforms the summaries are computed from differ from the stored templates.npy'
            return 'SPEC: the cluster waveforms the summaries are computed from are not %s' % (
                'the count-weighted template means (C08)' if curated else 'the stored template waveforms (nothing was curated)')
        if use == 'templates':
            tpl_peaks = ch['peak']
        # exact-arithmetic domain: un-curated data (small integers / dyadic values). There the returned spike
        # amplitudes are exact products; the per-id means are ONE correctly rounded division when the factor is 1,
        # and a division followed by a multiplication otherwise (compared with the relative tolerance 2^-40 of
        # DESIGN §3). Curated cluster waveforms are floating-point weighted means: 1e-9.
        inexact = use == 'clusters' and curated
        tol = 1e-9 if inexact else 0.
        tol_v = 1e-9 if inexact else (0. if f == 1 else TOL)
        if real:
            def cmp_amp(x, y): return _near(x, y, REL32 * sc['amp'])
            cmp_v = cmp_amp
        else:
            def cmp_amp(x, y): return _close(x, y, tol)
            def cmp_v(x, y): return _close(x, y, tol_v)
        exp_spike = [DC.to_float(x) for x in m['spike_amps']]
        if len(a['spike']) != len(exp_spike) or not all(cmp_amp(x, y) for x, y in zip(a['spike'], exp_spike)):
            return 'SPEC: scaled spike amplitudes (%s) differ from amplitude x largest unwhitened peak-to-peak x factor' % use
        # NaN exactly for the ids that do not occur in the STORED assignment — any id of the space, the highest included
        if len(a['v']) != n_ids:
            return 'SPEC: %d per-%s amplitudes for %d ids' % (len(a['v']), one, n_ids)
        for t in range(n_ids):
            if (a['v'][t] is None) != (t in U['no_spikes']):
                return 'SPEC: per-%s amplitude of id %d of %d is %s although the stored assignment has %s spike of it' % (
                    one, t, n_ids, 'NaN' if a['v'][t] is None else repr(a['v'][t]), 'a' if a['v'][t] is None else 'no')
        exp_v = [DC.to_float(x) for x in m['amps_v']]
        if not all(cmp_v(x, y) for x, y in zip(a['v'], exp_v)):
            return 'SPEC: per-%s amplitudes differ from the mean over member spikes (NaN for ids without spikes): %s vs %s' % (
                one, a['v'], exp_v)
        # rescaled templates have exactly that peak amplitude
        if len(a['phys']) != len(m['rescaled']):
            return 'SPEC: %d rescaled %s for %d ids' % (len(a['phys']), use, len(m['rescaled']))
        for t, (ph, pk) in enumerate(zip(a['phys'], m['rescaled_peak'])):
            if pk is None:
                if _finite(ph):
                    next(real_peaks)
                # no spike: the returned waveform is NaN everywhere (a flat waveform WITH spikes divides by
                # zero, which the property does not speak about)
                if m['amps_v'][t] is None and any(x is not None for row in ph for x in row):
                    return 'SPEC: rescaled %s %d has no spikes but is not NaN everywhere' % (one, t)
                continue
            if not _finite(ph):
                return 'SPEC: rescaled %s %d has spikes and a non-flat waveform but holds NaN/inf' % (one, t)
            peak = DC.to_float(next(real_peaks))         # largest channel peak-to-peak of the REAL returned waveform
            # (real-valued class: the arbitrary-unit amplitude is a float32 difference, the returned waveform a float64
            # product, so "exactly" holds up to one float32 rounding, 6e-8 relative — DESIGN §5 C09 L.)
            if not signed:
                if not _close(peak, a['v'][t], 1e-6 if real else 1e-9):
                    return 'SPEC: rescaled %s %d has peak amplitude %r, but its returned mean spike amplitude is %r' % (
                        one, t, peak, a['v'][t])
            elif not _close(peak, abs(a['v'][t]), 1e-9):
                # negative unit factor / negative stored amplitudes: the clause is false by a sign in the real code
                # (documented, rescaledUnit_peak_abs / _neg); the model says |v|
                return 'CORR: rescaled %s %d has peak amplitude %r, the model says |%r| (negative factor or amplitudes)' % (
                    one, t, peak, a['v'][t])
            # ... and is, entry by entry, the unwhitened waveform x (mean amplitude / arbitrary-unit amplitude) x factor
            R = m['rescaled'][t]
            if real:
                au = DC.to_float(m['amps_au'][t])
                atol = REL32 * sc['amp'] * max(1., sc['maxU'] / au)
                def cmp_e(x, y): return _near(x, DC.to_float(y), atol)
            else:
                def cmp_e(x, y): return _close(x, DC.to_float(y), 1e-9)
            if len(ph) != len(R) or any(len(r1) != len(r2) for r1, r2 in zip(ph, R)) or \
                    not all(cmp_e(x, y) for r1, r2 in zip(ph, R) for x, y in zip(r1, r2)):
                return 'SPEC: rescaled %s %d is not the unwhitened waveform scaled to its mean spike amplitude' % (one, t)
        got_ch = ok[use + '_channels']
        got_d = ok[use + '_durations']
        nw = len(ch['peak'])
        if len(got_ch) != nw or len(got_d) != nw:
            return 'SPEC: %d peak channels / %d durations for %d %s waveforms' % (len(got_ch), len(got_d), nw, one)
        if not inexact and not real:
            if got_ch != ch['peak']:
                return 'SPEC: %s_channels differ from the first arg-max of the per-channel peak-to-peak' % use
            exp_d = [DC.to_float(x) for x in ch['durations_ms']]
            if not all(_close(x, y, TOL) for x, y in zip(got_d, exp_d)):
                return 'SPEC: %s waveform durations %s differ from (argmax - argmin) on the peak channel in ms %s' % (use, got_d, exp_d)
        else:
            # floating-point weighted means: a channel whose exact peak-to-peak is within 2^-40 of the largest one
            # is accepted as peak channel (rounding of max - min may break such a tie either way); the duration
            # must be the one of the REPORTED channel (arg-max / arg-min along time compare stored values: exact).
            # Real-valued class: float32 subtraction, channels within 1e-5 x the largest magnitude are accepted.
            near = ch['near_peaks_abs'] if real else ch['near_peaks']
            for t in range(nw):
                if got_ch[t] not in near[t]:
                    return 'SPEC: %s_channels[%d] = %d is not a channel of largest peak-to-peak %s' % (use, t, got_ch[t], near[t])
                if not _close(got_d[t], DC.to_float(ch['dur_table_ms'][t][got_ch[t]]), TOL):
                    return 'SPEC: %s waveform duration %d differs from (argmax - argmin) on the peak channel in ms' % (use, t)
    # probe of the peak channel: the STORED probe table (all zeros when the dataset has none) at the peak channel,
    # computed by the model (`templatesProbes`)
    stored_probes = list(spec.get('channel_probes') or [0] * spec['n_channels'])
    if ok['channel_probes'] != stored_probes:
        return 'SPEC: channel_probes %s differ from the stored table %s' % (ok['channel_probes'], stored_probes)
    if S['templates_probes'] != [stored_probes[c] for c in tpl_peaks]:
        return 'MACHINERY: model templates_probes is not the probe table at the model peak channels (contradicts templatesProbes_spec)'
    if real:
        if len(ok['templates_probes']) != len(tpl_peaks) or \
                any(p != stored_probes[c] for p, c in zip(ok['templates_probes'], ok['templates_channels'])):
            return 'SPEC: templates_probes is not the probe of the peak channel'
    elif ok['templates_probes'] != S['templates_probes']:
        return 'SPEC: templates_probes is not the probe of the peak channel'
    # the bare vectors of `_amplitudes`: position k belongs to the k-th id present
    for key in ('templates_amplitudes', 'clusters_amplitudes'):
        exp = [DC.to_float(x) for x in S[key]]
        if len(exp) != len(S[key.split('_')[0] + '_present']):
            return 'MACHINERY: model %s has not one entry per id present (contradicts amplitudesVec_spec)' % key
        if len(ok[key]) != len(exp):
            return 'SPEC: %s has %d entries for %d ids present' % (key, len(ok[key]), len(exp))
        if (not all(_close(x, y, 1e-12) for x, y in zip(ok[key], exp))) if real else ok[key] != exp:
            return 'SPEC: %s differs from the mean stored amplitude per id present' % key
    if spec.get('pc_features') is not None:
        exp = [DC.to_float(x) for x in res[k]['model']]
        ymax = max(1., max(abs(p[1]) for p in spec['channel_positions']))
        if ok['depths'] is None or len(ok['depths']) != len(exp) or \
                not all((_near(x, y, REL32 * ymax) if real else _close(x, y, 1e-12)) for x, y in zip(ok['depths'], exp)):
            return 'SPEC: spike depths differ from the feature-weighted channel depths: %s vs %s' % (ok['depths'], exp)
    return None


def nontrivial(case):
    return True


def tally(rep, case, impl_res, ans):
    if case.get('reopen'):
        rep.count('second_model_on_the_directory')
    spec = case['spec']
    rep.count('curated:%s' % (spec.get('spike_clusters') is not None))
    wh = spec.get('whitening')
    if wh is None and spec.get('whitening_inv') is not None:
        rep.count('whitening:inverse_file_only')
    else:
        rep.count('whitening:%s%s' % ('none' if wh is None else ('nonsymmetric_' if any(wh[i][j] != wh[j][i] for i in range(len(wh)) for j in range(len(wh))) else 'diagonal_'), '' if wh is None else ('inv_file' if spec.get('whitening_inv') is not None else 'computed_inv')))
    nt = len(spec['templates'])
    used = set(spec['spike_templates'])
    for t, name in ((0, 'first'), (nt - 1, 'last')):
        if t not in used:
            rep.count('template_without_spikes:' + name)
    if any(t not in used for t in range(1, nt - 1)):
        rep.count('template_without_spikes:middle')
    rep.count('factor:%s' % case['factor'])
    rep.count('class:%s' % ('real_valued' if case.get('real') else 'signed' if case['factor'] < 0 or any(x < 0 for x in spec['amplitudes']) else 'exact'))
    if not case.get('only_depths') and 'templates' in ((ans.get('ok') or {}).get('res') or [{}])[0]:
        S = ans['ok']['res'][0]
        rep.count('stored_whitening_exactly_inverted:%s' % S.get('unwhitens'))
        for use in ('templates', 'clusters'):
            n = S[use]['id_count']
            if S[use]['no_spikes']:
                rep.count('%s_ids_without_spikes' % use)
                if n - 1 in S[use]['no_spikes']:
                    rep.count('%s_highest_id_without_spikes' % use)
    dt = spec.get('dtypes') or {}
    for k in ('spike_templates', 'templates', 'amplitudes'):
        if k in dt:
            rep.count('dtype:%s=%s' % (k, dt[k]))


def classify(case, impl_res, ans, why):
    spec = case['spec']
    nt = len(spec['templates'])
    return dict(kind=why.split(':')[0], what=why.split(':')[1].strip()[:45],
                last_template_empty=(nt - 1) not in set(spec['spike_templates']),
                curated=spec.get('spike_clusters') is not None, raised=impl_res.get('raised'))


def _vary_storage(rng, spec):
    """exact class: the dtypes the files are stored with (all generated values are exactly representable in each),
    the number of feature components (only the first one is used), a repeated channel in a feature channel list"""
    spec['dtypes'] = dict(spike_templates=rng.pick(['uint32', 'int64', 'uint16', 'int32']),
                          spike_clusters=rng.pick(['int32', 'int64', 'uint32']),
                          amplitudes=rng.pick(['float64', 'float64', 'float32']),
                          templates=rng.pick(['float32', 'float32', 'float64']))
    if spec.get('pc_features') is not None:
        nloc = len(spec['pc_features'][0][0])
        # 2..3 components are in-domain.  ONE component is not generated: `_read_array` squeezes the size-1 axis of
        # pc_features.npy, and the loader reads the resulting (n_spikes, k) array as k components on ONE local channel
        # (reshape to (n, k, 1), transpose -> (n, 1, k)); a file meant as one component on k channels then fails the
        # shape assertion against pc_feature_ind.npy (AssertionError at load).  The 2-D array is ambiguous between the
        # two readings: a squeezed stored dimension is outside the quantifier (DESIGN 9.4).
        npc = rng.pick([2, 2, 3])
        for fsp in spec['pc_features']:
            del fsp[npc:]
            while len(fsp) < npc:
                fsp.append([float(rng.randrange(-4, 9)) for _ in range(nloc)])
        if rng.random() < .15:
            row = rng.pick(spec['pc_feature_ind'])
            row[rng.randrange(1, nloc)] = row[0]
    return spec


def _real_valued(rng, spec):
    """real-valued class: normal templates, a dense well-conditioned whitening matrix (inverse computed by the model
    or stored), positive real amplitudes, normal features; float32 / float64 files.  Un-curated (all waveform
    arrays are stored values, so arg-max / arg-min along time stay exact comparisons)."""
    nc = spec['n_channels']
    spec['templates'] = [[[rng.gauss(0., 3.) for _ in row] for row in t] for t in spec['templates']]
    wm = np.array([[(4. if i == j else 0.) + rng.gauss(0., .5) for j in range(nc)] for i in range(nc)])
    spec['whitening'] = wm.tolist()
    spec.pop('whitening_inv', None)
    if rng.random() < .5:
        spec['whitening_inv'] = np.linalg.inv(wm).tolist()
    spec['amplitudes'] = [abs(rng.gauss(10., 4.)) + .125 for _ in spec['amplitudes']]
    if spec.get('pc_features') is not None:
        spec['pc_features'] = [[[rng.gauss(0., 3.) for _ in row] for row in fsp] for fsp in spec['pc_features']]
    spec['dtypes'] = dict(templates=rng.pick(['float32', 'float64']), amplitudes=rng.pick(['float64', 'float32']),
                          spike_templates=rng.pick(['uint32', 'int64', 'uint16', 'int32']))
    spec.pop('template_scaling', None)
    return spec


def gen(tier, rng):
    q = tier == 'quick'
    for i in range(250 if q else 5000):
        empty = ['none', 'first', 'middle', 'last'][i % 4] if i < 60 else 'random'
        kind = {3: 'real', 5: 'signed', 12: 'signed'}.get(i % 14, 'exact') if i >= 60 else 'exact'
        if kind == 'real':
            spec = _real_valued(rng, DC.dense_spec(rng, nt=rng.randrange(2, 5), nc=rng.randrange(2, 6), nsw=rng.randrange(2, 5), empty=empty, feats=(i % 5 != 4), probes=(i % 3 == 0), curated=False, whiten='none'))
            yield dict(p=PID, spec=spec, factor=[1., 2.5, 1.][i % 3], reopen=(i % 4 == 1), real=True)
            continue
        # 'signed': a negative / zero unit factor and / or negative stored amplitudes
        neg_amp = kind == 'signed' and i % 2 == 0
        spec = _vary_storage(rng, DC.dense_spec(rng, empty=empty, feats=(i % 5 != 4), probes=(i % 3 == 0), amp_nonneg=not neg_amp))
        factor = [1., 2.5, 1.][i % 3]
        if kind == 'signed' and (not neg_amp or i % 3 == 0):
            factor = [-2.5, 0., -1.][(i // 7) % 3]
        yield dict(p=PID, spec=spec, factor=factor, reopen=(i % 4 == 1))
    # get_depths works in batches of 50000 spikes: one more than a full batch, and exactly one batch
    for ns in ((50001,) if q else (50001, 50000, 100001)):
        spec = DC.dense_spec(rng, nt=3, nc=3, ns=ns, nsw=2, curated=False, whiten='none', feats=True, empty='none')
        spec['pc_features'] = [[[float((i * 7 + k) % 5 + (0 if i % 11 == 3 else 1)) for k in range(2)], [0., 0.]] for i in range(ns)]
        spec['pc_feature_ind'] = [[0, 1], [1, 2], [2, 0]]
        spec['spike_samples'] = list(range(ns))
        yield dict(p=PID, spec=spec, factor=1., only_depths=True)
