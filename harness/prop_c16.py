"""C16 — chunkings tile the sample axis exactly once (DESIGN.md §5 C16)."""
import itertools
import math
from fractions import Fraction
import numpy as np
from . import common as C
from .prop_c01 import _fname

PID = 'C16'
IMPL_KEYS = ('bounds', 'bs')     # values observed on the REAL code, sent to the driver (see check: evaluate)
PARALLEL = False
BATCH = 4000
BUDGET_S = {'quick': 60, 'thorough': 600}
RULE = ('exhaustive (n, chunk, overlap<chunk) and (n, k, size) grids; all multi-file size lists up '
        'to a bound x chunk lengths through real flat readers; real cbin readers over chunk '
        'durations x thread counts x cache on/off; then random larger triples. non-trivial = '
        'more than one chunk/interval/excerpt produced (counted per distinct case)')
ASSUMPTIONS = [
    'chunk length of flat/array/npy readers: the Lean model computes int(round(fl(600*rate))) — the float product as '
    'IEEE-754 binary64 rounding of the exact product (Model/Fl.lean roundDouble, Model/C16d.lean chunkSizeFl), then round '
    'half to even — from the EXACT rational value of the float sample rate handed to the real reader. No restriction on '
    'the rates: decimal rates, exact .5 ties and rates whose product lands within a few ulps of a tie are generated; the '
    'rounding model is tied to the float unit by the `fl` stream of ./check C15',
    'compressed readers: the chunk table is read from the real .ch file and judged by the Lean predicate against '
    'the chunk length int(np.round(fl(chunk_duration*rate))) the model computes from the exact rationals, and compared '
    'with the model of mtscomp\'s table; mtscomp\'s codec and thread pool are outside the model',
]


def _rat(x):
    """exact rational value of a float / int, as the driver reads it"""
    f = Fraction(x)
    return [f.numerator, f.denominator]


def _imp():
    from phylib.io import array as A
    from phylib.io import traces as T
    return A, T


def impl(case):
    A, T = _imp()
    op = case['op']
    if op == 'chunk_bounds':
        return [[int(x) for x in t] for t in A.chunk_bounds(case['n'], case['cs'], case['ov'])]
    if op == 'chunk_data':
        # data_chunk on real data: kept parts and chunk parts (index sets)
        data = np.arange(case['n'])
        cb = list(A.chunk_bounds(case['n'], case['cs'], case['ov']))
        return dict(bounds=[[int(x) for x in t] for t in cb],
                    kept=[A.data_chunk(data, c).tolist() for c in cb],
                    full=[A.data_chunk(data, c, with_overlap=True).tolist() for c in cb])
    if op == 'excerpts':
        return [[int(a), int(b)] for a, b in A.excerpts(case['n'], n_excerpts=case['k'],
                                                        excerpt_size=case['size'])]
    if op == 'get_excerpts':
        data = np.arange(case['n'])
        return A.get_excerpts(data, n_excerpts=case['k'], excerpt_size=case['size']).tolist()
    if op == 'get_chunk_bounds':
        return [int(x) for x in T._get_chunk_bounds(case['sizes'], case['cs'])]
    if op == 'reader_flat':
        sr = case['sr']
        with C.scratch_dir() as d:
            paths, blocks, row0 = [], [], 0
            for i, s in enumerate(case['sizes']):
                p = d / _fname(case.get('names', 'idx'), i)
                blocks.append((np.arange(row0, row0 + s, dtype=np.int16)[:, None] * 3 +
                               np.arange(case['nch'], dtype=np.int16)[None, :]).astype(np.int16))
                row0 += s
                with open(p, 'wb') as f:
                    f.write(b'\x5a' * case.get('offset', 0))      # header bytes before the samples
                    f.write(blocks[-1].tobytes())
                paths.append(p)
            r = T.get_ephys_reader(paths, sample_rate=sr, dtype=np.int16, n_channels=case['nch'],
                                   offset=case.get('offset', 0))
            it = [[int(a), int(b)] for a, b in r.iter_chunks()]
            it2 = [[int(a), int(b)] for a, b in r.iter_chunks()]
            # read_by_chunks_eq_concat: reader[i0:i1] over the iterator, stacked = the recording
            whole = np.concatenate(blocks, axis=0)
            got = [np.asarray(r[a:b]) for a, b in it if b > a]
            got = np.concatenate(got, axis=0) if got else whole[:0]
            out = dict(bounds=[int(x) for x in r.chunk_bounds],
                       part_bounds=[int(x) for x in r.part_bounds],
                       iter=it, iter_second_pass_same=bool(it2 == it), n_samples=int(r.n_samples),
                       concat_ok=bool(got.shape == whole.shape and np.array_equal(got, whole)))
            del r
            if case.get('rewrite'):
                # the same paths now hold a recording of another length: a reader opened afterwards (same process, same
                # arguments) has the chunk bounds of the files as they are now
                sizes2 = [max(0 if case.get('offset', 0) else 1, x + dx) for x, dx in zip(case['sizes'], case['rewrite'])]
                for p, x in zip(paths, sizes2):
                    with open(p, 'wb') as f:
                        f.write(b'\x5a' * case.get('offset', 0))
                        f.write(np.zeros((x, case['nch']), dtype=np.int16).tobytes())
                r2 = T.get_ephys_reader(paths, sample_rate=sr, dtype=np.int16, n_channels=case['nch'],
                                        offset=case.get('offset', 0))
                b2 = [int(x) for x in r2.chunk_bounds]
                cur, tiles = 0, True
                for a, b in r2.iter_chunks():
                    if int(a) == int(b):
                        continue
                    tiles = tiles and int(a) == cur and int(b) > cur
                    cur = int(b)
                cum = list(np.cumsum([0] + sizes2))
                out['rewritten'] = dict(n=int(sum(sizes2)), n_samples=int(r2.n_samples), last_bound=b2[-1] if b2 else None,
                                        tiles=bool(tiles and cur == sum(sizes2)),
                                        file_bounds_in=bool(all(int(c) in b2 for c in cum)))
                del r2
        return out
    if op == 'reader_array':
        sr = case['sr']
        arr = np.zeros((case['sizes'][0], 2), dtype=np.int16)
        if case.get('via') == 'npy':
            # the same array through a .npy file (NpyEphysReader)
            with C.scratch_dir() as d:
                np.save(d / 'a.npy', arr)
                r = T.get_ephys_reader(d / 'a.npy', sample_rate=sr)
                out = dict(bounds=[int(x) for x in r.chunk_bounds],
                           part_bounds=[int(x) for x in r.part_bounds],
                           iter=[[int(a), int(b)] for a, b in r.iter_chunks()],
                           n_samples=int(r.n_samples))
                del r
            return out
        r = T.get_ephys_reader(arr, sample_rate=sr)
        return dict(bounds=[int(x) for x in r.chunk_bounds],
                    part_bounds=[int(x) for x in r.part_bounds],
                    iter=[[int(a), int(b)] for a, b in r.iter_chunks()],
                    n_samples=int(r.n_samples))
    if op == 'reader_cbin':
        import mtscomp
        n, nch = case['n'], 2
        with C.scratch_dir() as d:
            p = d / 'data.bin'
            (np.arange(n * nch, dtype=np.int16).reshape((n, nch)) % 50).tofile(p)
            mtscomp.compress(p, d / 'data.cbin', d / 'data.ch', sample_rate=case['sr'],
                             n_channels=nch, dtype=np.int16, chunk_duration=case['cd'],
                             n_threads=1, check_after_compress=False, quiet=True)
            rd = mtscomp.Reader(n_threads=case['bs'])
            rd.open(d / 'data.cbin', d / 'data.ch')
            r = T.get_ephys_reader(rd)
            out = dict(bounds=[int(x) for x in r.chunk_bounds],
                       iter=[[int(a), int(b)] for a, b in r.iter_chunks(cache=case['cache'])],
                       n_samples=int(r.n_samples), bs=int(rd.batch_size))
            # further complete passes over the SAME reader (cache on/off in any sequence): every pass tiles the
            # recording like the first
            again = []
            for cache in case.get('again', []):
                try:
                    again.append([[int(a), int(b)] for a, b in r.iter_chunks(cache=cache)])
                except Exception as e:  # noqa
                    again.append('%s: %s' % (type(e).__name__, str(e)[:100]))
            out['again'] = again
            rd.close()
        return out
    raise ValueError(op)


def model_query(case, impl_res):
    q = {k: v for k, v in case.items() if not k.startswith('_')}
    ok = impl_res.get('ok')
    op = case['op']
    if op in ('reader_flat', 'reader_array'):
        # the model gets the exact value of the float rate, never a chunk length computed in Python
        q = dict(p=PID, op='get_chunk_bounds', sizes=case['sizes'], rate=_rat(case['sr']))
        if ok is not None:
            q['impl'] = ok['bounds']
        return q
    if op == 'reader_cbin':
        q = dict(p=PID, op='iter_mts', n=case['n'], cd=_rat(case['cd']), rate=_rat(case['sr']))
        if ok is None:
            q.update(bounds=[0, case['n']], bs=case['bs'])
        else:
            # batch size: what the real mtscomp reader reports (it is what the real iterator uses)
            q.update(bounds=ok['bounds'], impl=ok['iter'], bs=ok['bs'])
        return q
    if ok is None:
        if op == 'chunk_data':
            q['op'] = 'chunk_bounds'
        return q
    if op == 'chunk_bounds':
        q['impl'] = ok
    elif op == 'chunk_data':
        q.update(op='chunk_bounds', impl=ok['bounds'])
    elif op in ('excerpts', 'get_chunk_bounds'):
        q['impl'] = ok
    return q


def judge(case, impl_res, ans):
    if 'err' in ans:
        return 'MACHINERY: driver error %s' % ans['err']
    m = ans['ok']
    op = case['op']
    if op in ('reader_flat', 'reader_array'):
        if m.get('inrange') is False:
            return None      # the float product 600*rate is subnormal or overflows: not modelled (tallied)
        if m.get('model') is None:
            # a rate of at most 1/1200 Hz: the model constructor refuses (assert chunk_size > 0); outside the
            # property's quantifier whatever the real code does
            return None
    if op == 'reader_cbin' and m.get('table_inrange') is False:
        return None
    if 'raised' in impl_res:
        return 'SPEC: real code raised %s (%s) at %s on an in-domain input' % (
            impl_res['raised'], impl_res['msg'], impl_res['where'])
    ok = impl_res['ok']
    if m.get('model_spec') is False:
        return 'MACHINERY: model output rejected by its own spec (contradicts the theorem)'
    if op == 'get_excerpts':
        n, k, size = case['n'], case['k'], case['size']
        if n < k * size:
            if ok != list(range(n)):
                return 'SPEC: data shorter than requested but get_excerpts is not the whole data'
        else:
            if any(b <= a for a, b in zip(ok, ok[1:])) or len(ok) > k * size or \
                    any(not (0 <= x < n) for x in ok):
                return 'SPEC: excerpts not increasing/disjoint/in-bounds or too many samples'
        if ok != m['model']:
            return 'CORR: get_excerpts differs from the model'
        return None
    if m.get('impl_spec') is False:
        return 'SPEC: C16 predicate false on the real output'
    if op == 'chunk_data':
        n, cs = case['n'], case['cs']
        flat = [x for k in ok['kept'] for x in k]
        if flat != list(range(n)):
            return 'SPEC: kept parts (data_chunk) do not concatenate to the data'
        for k, f in zip(ok['kept'], ok['full']):
            if not set(k) <= set(f) or len(f) > cs:
                return 'SPEC: kept part outside its chunk data or chunk larger than chunk size'
        if ok['bounds'] != m['model']:
            return 'CORR: chunk_bounds tuples differ from the model'
        return None
    if op in ('reader_flat', 'reader_array'):
        if ok['n_samples'] != sum(case['sizes']):
            return 'SPEC: n_samples differs from the total length'
        it = ok['iter']
        cur = 0
        for a, b in it:
            if a == b:
                continue
            if a != cur or b < a:
                return 'SPEC: iter_chunks intervals do not tile the recording in order'
            cur = b
        if cur != sum(case['sizes']):
            return 'SPEC: iter_chunks intervals do not reach the sample count'
        if ok.get('concat_ok') is False:
            return 'SPEC: reader[i0:i1] over iter_chunks, stacked, differs from the recording'
        rw = ok.get('rewritten')
        if rw and not (rw['n_samples'] == rw['n'] == rw['last_bound'] and rw['tiles'] and rw['file_bounds_in']):
            return ('SPEC: after the files were replaced (same paths) a newly opened reader does not have the chunk bounds '
                    'of the new recording: %s' % rw)
        if ok.get('iter_second_pass_same') is False:
            return 'SPEC: a second pass of iter_chunks over the same reader differs from the first'
        if m.get('reader') != m['model']:
            return 'MACHINERY: readerChunkBoundsFl differs from getChunkBounds with chunkSizeFl'
        if ok['bounds'] != m['model'] or ok['iter'] != m['iter'] or ok['part_bounds'] != m['part_bounds']:
            return 'CORR: reader bounds/iterator/part bounds differ from the model (chunk length of the model: %s)' % m.get('cs')
        return None
    if op == 'reader_cbin':
        if ok['n_samples'] != case['n']:
            return 'SPEC: n_samples of the compressed reader differs from the length of the recording'
        if ok['bs'] != case['bs']:
            return 'MACHINERY: mtscomp reader opened with n_threads=%s reports batch_size %s' % (case['bs'], ok['bs'])
        if 'table_spec' not in m:
            return 'MACHINERY: no positive chunk length for cd=%r rate=%r' % (case['cd'], case['sr'])
        if m['table_spec'] is False:
            return ('SPEC: compressed reader chunk bounds do not increase strictly from 0 to n or are further apart '
                    'than the chunk length (%s samples)' % m['table_cs'])
        if ok['iter'] != m['model']:
            return 'CORR: compressed iter_chunks differs from the model'
        for k, it in enumerate(ok.get('again', [])):
            if it != ok['iter']:
                return ('SPEC: pass %d over the same compressed reader (cache=%s after %s) does not tile the recording '
                        'like the first pass: %s' % (k + 2, case['again'][k], [case['cache']] + case['again'][:k], str(it)[:120]))
        if ok['bounds'] != m['table']:
            return 'CORR: chunk table of the compressed file differs from the model of the table'
        return None
    if ok != m['model']:
        return 'CORR: output differs from the model (predicate holds on this input)'
    return None


def nontrivial(case):
    op = case['op']
    if op in ('chunk_bounds', 'chunk_data'):
        return case['n'] > case['cs']
    if op in ('excerpts', 'get_excerpts'):
        return case['n'] > case['size'] and case['k'] >= 2
    if op == 'reader_cbin':
        return True
    if 'sr' in case:
        return sum(case['sizes']) > 600 * case['sr'] + 1 or len(case['sizes']) > 1
    return sum(case['sizes']) > case['cs'] or len(case['sizes']) > 1


def tally(rep, case, impl_res, ans):
    rep.count('op:' + case['op'])
    if case['op'] == 'reader_flat' and case.get('rewrite'):
        rep.count('same_paths_rewritten_and_reopened')
    if case['op'] == 'reader_flat' and 0 in case['sizes']:
        rep.count('header_only_file:%s' % ('first' if case['sizes'][0] == 0 else 'later'))
    if case['op'] == 'reader_cbin':
        rep.count('passes_over_one_compressed_reader:%s' % ([case['cache']] + case.get('again', [])))
    if 'ok' in impl_res and case['op'] in ('chunk_bounds',):
        rep.count('chunks:%s' % min(len(impl_res['ok']), 6))
    if case['op'] in ('reader_flat', 'reader_array') and 'ok' in ans:
        x = 600 * Fraction(case['sr'])
        kind = 'whole' if x.denominator == 1 else 'tie(.5)' if x.denominator == 2 else 'fractional'
        mm = ans['ok']
        rep.count('float product 600*rate: %s' % ('exact' if mm.get('product_is_double') else 'rounded'))
        if mm.get('inrange') is False:
            kind = 'float product outside the normal range (not judged)'
        elif mm.get('exact_cs') is not None and mm.get('exact_cs') != mm.get('cs'):
            kind = 'float product rounds across a .5 tie: exact-rational model %s, float model %s' % (
                'differs', 'used')
        elif case.get('tie_ulps') is not None:
            kind = 'within a few ulps of a .5 tie, same chunk length as the exact product'
        if mm.get('model') is None:
            kind = 'rejected by the constructor (chunk length 0): real %s' % ('raised' if 'raised' in impl_res else 'accepted')
        rep.count('chunk_length_600s*rate:' + kind)
    if case['op'] == 'reader_cbin' and 'ok' in ans:
        mm = ans['ok']
        if mm.get('table_exact_cs') is not None and mm.get('table_exact_cs') != mm.get('table_cs'):
            rep.count('cbin chunk length: float product rounds across a .5 tie (exact-rational model differs)')
    if case['op'] == 'reader_array':
        rep.count('reader_array_via:' + case.get('via', 'array'))
    if case['op'] == 'reader_flat':
        rep.count('files:%d' % len(case['sizes']))
        rep.count('header_offset_rows:%s' % ('0' if not case.get('offset') else
                                             '<1' if case['offset'] < 2 * case['nch'] else '>=1'))


def classify(case, impl_res, ans, why):
    return dict(op=case['op'], kind=why.split(':')[0],
                raised=impl_res.get('raised'), where=impl_res.get('where'))


def shrink(case):
    for k in ('n', 'cs', 'ov', 'k', 'size'):
        if k in case and isinstance(case[k], int) and case[k] > 0:
            for v in (case[k] // 2, case[k] - 1):
                c = dict(case); c[k] = v
                if _indom(c):
                    yield c
    if 'sizes' in case:
        s = case['sizes']
        if len(s) > 1:
            for i in range(len(s)):
                c = dict(case); c['sizes'] = s[:i] + s[i + 1:]
                yield c
        for i in range(len(s)):
            if s[i] > 1:
                c = dict(case); c['sizes'] = s[:i] + [s[i] - 1] + s[i + 1:]
                yield c


def _indom(c):
    op = c['op']
    if op in ('chunk_bounds', 'chunk_data'):
        return c['n'] >= 0 and c['cs'] >= 1 and 0 <= c['ov'] < c['cs']
    if op in ('excerpts',):
        return c['n'] >= 0 and c['k'] >= 2 and c['size'] >= 0
    if op == 'get_excerpts':
        return c['n'] >= 0 and c['k'] >= 0 and c['size'] >= 1
    if op == 'reader_cbin':
        return c['n'] >= 1
    return c.get('cs', 1) >= 1


def _rate_for(cs):
    """a float sample rate whose 600 s chunk is about `cs` samples (the Lean float model says how many exactly)"""
    return cs / 600.


def _ulps(x, d):
    for _ in range(abs(d)):
        x = math.nextafter(x, math.inf if d > 0 else -math.inf)
    return x


FRACTIONAL_RATES = [0.035, 0.0357, 0.0123, 0.0442, 0.00834, 0.0851, 0.17, 0.0699]   # 600*rate is not a whole number
# dyadic rates m/2^j: 600*rate = 75m/2^(j-3) is computed exactly by the float product.  Exact .5 ties
# (37.5 -> 38, 112.5 -> 112, 187.5 -> 188, 262.5 -> 262: round half to EVEN) and other fractional parts
DYADIC_RATES = [1 / 16, 3 / 16, 5 / 16, 7 / 16, 1 / 32, 3 / 32, 1 / 64, 3 / 64, 5 / 64, 1 / 128, 3 / 128, 1 / 256, 3 / 256, 5 / 256,
                1 / 512, 1 / 1024]
REJECTED_RATES = [1 / 2048, 1 / 4096, 0.0008]      # int(round(600*rate)) = 0: the constructors assert


def gen(tier, rng):
    q = tier == 'quick'
    for i, sr in enumerate(FRACTIONAL_RATES + DYADIC_RATES):
        big = int(600 * sr) + 1
        lists = [[100], [30, 55, 41], [7, 160], [64, 64, 3, 90], [2 * big + 3, big, max(1, big - 1)]]
        if q and sr in DYADIC_RATES:
            lists = [lists[i % 4], lists[4]]
        for sizes in lists:
            yield dict(p=PID, op='reader_flat', sizes=list(sizes), nch=1 + i % 3, offset=0, sr=sr)
        yield dict(p=PID, op='reader_array', sizes=[150 + i], sr=sr, via=['array', 'npy'][i % 2])
    for sr in REJECTED_RATES:
        yield dict(p=PID, op='reader_flat', sizes=[5, 3], nch=1, offset=0, sr=sr)
        yield dict(p=PID, op='reader_array', sizes=[7], sr=sr)
    # rates whose product 600*rate lands ON or within a few ulps of a .5 tie: the float product may be the tie itself
    # (then round takes the even neighbour) although the exact product is beside it — e.g. 0.0225: exact 13.4999.., float
    # 13.5 -> 14.  Includes the smallest accepted chunk (0.5 + 2^-54 is where the constructor starts to accept).
    ks = [0, 1, 4, 6, 11, 13, 16, 28, 29, 37, 112, 187] if q else list(range(0, 60)) + [112, 187, 262, 1000, 17999]
    for n_, k in enumerate(ks):
        for d in ((-2, 0, 1, 3) if q else range(-3, 4)):
            sr = _ulps((k + .5) / 600., d)
            big = k + 2
            if (n_ + d) % 2 and k < 2000:      # (the int16 test recording of reader_flat holds row numbers * 3)
                yield dict(p=PID, op='reader_flat', sizes=[2 * big + 3, big, max(1, big - 1)], nch=1 + n_ % 2, offset=0,
                           sr=sr, tie_ulps=d)
            else:
                yield dict(p=PID, op='reader_array', sizes=[3 * big + 1], sr=sr, via=['array', 'npy'][(n_ + d) % 4 // 2],
                           tie_ulps=d)
    # an ordinary acquisition rate and decimal rates: far from every tie
    for sr in (30000., 25000., 2500.1, 0.1, 0.37, 1.23):
        yield dict(p=PID, op='reader_array', sizes=[int(600 * sr) * 2 + 7 if sr < 10 else 1000], sr=sr)
    N, CS = (40, 14) if q else (70, 24)
    # 1. exhaustive chunk_bounds grid (every residue of n mod (cs-ov), odd overlaps)
    for n in range(0, N + 1):
        for cs in range(1, CS + 1):
            for ov in range(0, cs):
                yield dict(p=PID, op='chunk_bounds', n=n, cs=cs, ov=ov)
    for n in range(0, 25 if q else 40):
        for cs in range(1, 9 if q else 13):
            for ov in range(0, cs):
                yield dict(p=PID, op='chunk_data', n=n, cs=cs, ov=ov)
    # 2. excerpts grid
    NE, KE, SE = (30, 6, 8) if q else (45, 8, 11)
    for n in range(0, NE + 1):
        for k in range(0, KE + 1):
            for size in range(0, SE + 1):
                if k >= 2:
                    yield dict(p=PID, op='excerpts', n=n, k=k, size=size)
                if size >= 1:   # a zero excerpt size is a degenerate request (np.concatenate of nothing)
                    yield dict(p=PID, op='get_excerpts', n=n, k=k, size=size)
    # 3. all size lists of <= 3 files x chunk lengths (function level, then real readers)
    S = 6 if q else 9
    for k in (1, 2, 3):
        for sizes in itertools.product(range(1, S + 1), repeat=k):
            for cs in range(1, 9 if q else 12):
                yield dict(p=PID, op='get_chunk_bounds', sizes=list(sizes), cs=cs)
    # size lists with EMPTY parts (a file holding only its header): leading, inner, trailing, all
    for sizes in itertools.product(range(0, 4), repeat=3):
        if 0 in sizes:
            for cs in (1, 2, 3):
                yield dict(p=PID, op='get_chunk_bounds', sizes=list(sizes), cs=cs)
                sr = _rate_for(cs)
                if sum(sizes) > 0 and (sum(sizes) + cs) % (3 if q else 1) == 0:
                    yield dict(p=PID, op='reader_flat', sizes=list(sizes), sr=sr, nch=2, offset=[4, 3, 8][cs % 3], names='idx')
    S2 = 4 if q else 6
    for k in (1, 2, 3):
        for sizes in itertools.product(range(1, S2 + 1), repeat=k):
            for cs in (1, 2, 3, 5, 7):
                sr = _rate_for(cs)
                if sr is not None:
                    nch = 1 + (sum(sizes) % 3)
                    kk = sum(sizes) * 7 + cs + k
                    # header offsets: none, less than a row, exactly one row, several rows
                    yield dict(p=PID, op='reader_flat', sizes=list(sizes), sr=sr, nch=nch,
                               offset=[0, 1, 2 * nch, 2 * nch * 3, 4, 0][kk % 6], names=['idx', 'rev', 'nat'][kk % 3],
                               rewrite=[[3, 0, -1][(kk + i) % 3] for i in range(len(sizes))] if kk % 4 == 0 else None)
    for n in range(1, 12):
        for cs in (1, 2, 3, 5, 7, 20):
            sr = _rate_for(cs)
            if sr is not None:
                yield dict(p=PID, op='reader_array', sizes=[n], sr=sr, via=['array', 'npy'][(n + cs) % 2])
    # 4. compressed readers: lengths x chunk durations x threads x cache
    for n in ((5, 17, 40) if q else (1, 5, 17, 40, 64, 99)):
        # chunk length cd*10 samples: 5, 10 / 2.5 (tie -> 2), 7.5 (tie -> 8), 25; decimal durations: 0.35 (float product
        # exactly 3.5 -> 4 although the double 0.35 is below 7/20), 0.45 (4.5 -> 4), 0.15, 0.33
        for cd in ((0.5, 1.0, 0.25, 0.75, 0.35, 0.45) if q else (0.25, 0.5, 0.75, 1.0, 2.5, 0.125 * 3, 0.35, 0.45, 0.15, 0.33, 0.65)):
            for bs in (1, 2, 3):
                for cache in (False, True):
                    if q and cd in (0.25, 0.75, 0.35, 0.45) and (bs + (n % 3) + cache) % 3:
                        continue            # quick tier: a third of the tie chunk durations
                    yield dict(p=PID, op='reader_cbin', n=n, sr=10.0, cd=cd, bs=bs, cache=cache,
                               again=[[], [True], [False, True], [True, True]][(n + bs + int(cache)) % 4])
    # 5. random larger cases
    R = 3000 if q else 60000
    for _ in range(R):
        t = rng.randrange(4)
        if t == 0:
            cs = rng.randrange(1, 200)
            yield dict(p=PID, op='chunk_bounds', n=rng.randrange(0, 3000), cs=cs, ov=rng.randrange(0, cs))
        elif t == 1:
            yield dict(p=PID, op='excerpts', n=rng.randrange(0, 2000), k=rng.randrange(2, 30),
                       size=rng.randrange(0, 200))
        elif t == 2:
            yield dict(p=PID, op='get_excerpts', n=rng.randrange(0, 2000), k=rng.randrange(0, 30),
                       size=rng.randrange(1, 200))
        else:
            k = rng.randrange(1, 6)
            yield dict(p=PID, op='get_chunk_bounds', sizes=[rng.randrange(1, 400) for _ in range(k)],
                       cs=rng.randrange(1, 300))
