"""C16 — chunkings tile the sample axis exactly once (DESIGN.md §5 C16)."""
import itertools
import math
from fractions import Fraction
import numpy as np
from . import common as C
from .prop_c01 import _fname, boundary_rates

PID = 'C16'
IMPL_KEYS = ('bounds', 'bs')     # values observed on the REAL code, sent to the driver (see check: evaluate)
PARALLEL = False
BATCH = 4000
BUDGET_S = {'quick': 60, 'thorough': 600}
RULE = ('exhaustive (n, chunk, overlap<chunk) and (n, k, size) grids; all multi-file size lists up '
        'to a bound x chunk lengths through real flat readers; real cbin readers over chunk '
        'durations x thread counts x cache on/off, handed over as mtscomp.Reader objects and BY PATH (batch size '
        'cpu_count // 2, for several CPU counts); every reader also through further passes of its iterator (default, '
        'cache=False, cache=True) and through DERIVED readers (reader[:, cols], reader * 2: what the waveform code '
        'consumes); sample rates as Python float / int, np.float64 / np.int32 (binary64 product: compared with the float '
        'model, and the constructor must accept exactly the rates of C01.RateOK and reject the others) and as np.float32 / '
        'np.float16 / np.longdouble (product in that precision: judged by the clauses at the exhibited chunk length and '
        'by the envelope of Model/C16e.lean); then random larger triples. non-trivial = '
        'more than one chunk/interval/excerpt produced (counted per distinct case)')
ASSUMPTIONS = [
    'chunk length of flat/array/npy readers: the Lean model computes int(round(fl(600*rate))) — the float product as '
    'IEEE-754 binary64 rounding of the exact product (Model/Fl.lean roundDouble, Model/C16d.lean chunkSizeFl), then round '
    'half to even — from the EXACT rational value of the float sample rate handed to the real reader. No restriction on '
    'the rates: decimal rates, exact .5 ties and rates whose product lands within a few ulps of a tie are generated; the '
    'rounding model is tied to the float unit by the `fl` stream of ./check C15',
    'sample rates given as NumPy scalars of another precision than binary64 (np.float32, np.float16, np.longdouble): '
    '600.0 * rate is computed in the precision of the scalar (NumPy >= 2), which Model/Fl.lean does not model. The property '
    'quantifies over chunk LENGTHS, so which length such a rate gives is not part of it: these readers are judged by the '
    'clauses at the chunk length they exhibit (largest gap of the real bounds), their bounds are compared with '
    'getChunkBounds at that length, and the exhibited length must lie in the envelope |cs - 600*rate| <= 1/2 + '
    '2^-p*600*rate (theorem chunkSize_in_envelope; p = 11 / 24 / 53 - the last one for long double, whatever its width)',
    'a compressed file opened BY PATH gets mtscomp.Reader(n_threads=cpu_count() // 2): other CPU counts are simulated by '
    'replacing multiprocessing.cpu_count for the duration of the call; with ONE cpu n_threads = 0 and the real call raises '
    'ZeroDivisionError (environment; iterChunksMts_tile needs 0 < bs; tallied, not judged)',
    'compressed readers: the chunk table is read from the real .ch file and judged by the Lean predicate against '
    'the chunk length int(np.round(fl(chunk_duration*rate))) the model computes from the exact rationals, and compared '
    'with the model of mtscomp\'s table; mtscomp\'s codec and thread pool are outside the model',
]


def _rat(x):
    """exact rational value of a float / int, as the driver reads it"""
    f = Fraction(x)
    return [f.numerator, f.denominator]


def _imp():
    from phylib.io import array as A
    from phylib.io import traces as T
    return A, T


BINARY64 = ('float', 'int', 'float64', 'int32')      # kinds of sample rate whose product 600.0 * rate is a binary64 product
OTHER_PREC = {'float16': 11, 'float32': 24, 'longdouble': 53}     # p of the envelope (long double: at least 53 bits)


def _rate(case):
    """the sample rate as the real reader gets it"""
    sr, kind = case['sr'], case.get('srkind', 'float')
    if kind == 'float':
        return float(sr)
    if kind == 'int':
        return int(sr)
    return getattr(np, kind)(sr)


def _rate_exact(case):
    """the exact rational value of that object (every conversion here is exact: float32/float16 -> binary64, a double ->
    long double, an int below 2^53)"""
    v = _rate(case)
    return Fraction(int(v)) if case.get('srkind', 'float') in ('int', 'int32') else Fraction(float(v))


def _pairs(it):
    return [[int(a), int(b)] for a, b in it]


def _stack(r, it, like):
    got = [np.asarray(r[a:b]) for a, b in it if b > a]
    got = np.concatenate(got, axis=0) if got else like[:0]
    return bool(got.shape == like.shape and np.array_equal(got, like))


def _observe(r, whole):
    """everything C16 says about ONE real reader: bounds, several passes of its iterator, the same through derived readers
    (`reader[:, cols]` is what `model.traces` is, traces.py:590; an arithmetic expression), and - when the recording is
    known - that reading it chunk by chunk gives it back"""
    it = _pairs(r.iter_chunks())
    out = dict(bounds=[int(x) for x in r.chunk_bounds], part_bounds=[int(x) for x in r.part_bounds],
               iter=it, n_samples=int(r.n_samples),
               passes=[_pairs(r.iter_chunks()), _pairs(r.iter_chunks(cache=False)), _pairs(r.iter_chunks(cache=True))])
    cols = [r.n_channels - 1, 0] if r.n_channels > 1 else [0]
    der = {}
    for name, dr in (('cols', r[:, cols]), ('arith', r * 2)):
        dit = _pairs(dr.iter_chunks())
        der[name] = dict(bounds=[int(x) for x in dr.chunk_bounds], part_bounds=[int(x) for x in dr.part_bounds],
                         n_samples=int(dr.n_samples), iter=dit)
        if whole is not None:
            der[name]['concat_ok'] = _stack(dr, dit, whole[:, cols] if name == 'cols' else whole * 2)
    out['derived'] = der
    if whole is not None:
        # read_by_chunks_eq_concat: reader[i0:i1] over the iterator, stacked = the recording
        out['concat_ok'] = _stack(r, it, whole)
    return out


def impl(case):
    A, T = _imp()
    op = case['op']
    if op == 'chunk_bounds':
        return [[int(x) for x in t] for t in A.chunk_bounds(case['n'], case['cs'], case['ov'])]
    if op == 'chunk_data':
        # data_chunk on real data: kept parts and chunk parts (index sets)
        data = np.arange(case['n'])
        cb = list(A.chunk_bounds(case['n'], case['cs'], case['ov']))
        return dict(bounds=[[int(x) for x in t] for t in cb],
                    kept=[A.data_chunk(data, c).tolist() for c in cb],
                    full=[A.data_chunk(data, c, with_overlap=True).tolist() for c in cb])
    if op == 'excerpts':
        return [[int(a), int(b)] for a, b in A.excerpts(case['n'], n_excerpts=case['k'],
                                                        excerpt_size=case['size'])]
    if op == 'get_excerpts':
        data = np.arange(case['n'])
        return A.get_excerpts(data, n_excerpts=case['k'], excerpt_size=case['size']).tolist()
    if op == 'get_chunk_bounds':
        return [int(x) for x in T._get_chunk_bounds(case['sizes'], case['cs'])]
    if op == 'reader_flat':
        sr = _rate(case)
        with C.scratch_dir() as d:
            paths, blocks, row0 = [], [], 0
            for i, s in enumerate(case['sizes']):
                p = d / _fname(case.get('names', 'idx'), i)
                blocks.append((np.arange(row0, row0 + s, dtype=np.int16)[:, None] * 3 +
                               np.arange(case['nch'], dtype=np.int16)[None, :]).astype(np.int16))
                row0 += s
                with open(p, 'wb') as f:
                    f.write(b'\x5a' * case.get('offset', 0))      # header bytes before the samples
                    f.write(blocks[-1].tobytes())
                paths.append(p)
            r = T.get_ephys_reader(paths, sample_rate=sr, dtype=np.int16, n_channels=case['nch'],
                                   offset=case.get('offset', 0))
            out = _observe(r, np.concatenate(blocks, axis=0))
            del r
            if case.get('rewrite'):
                # the same paths now hold a recording of another length: a reader opened afterwards (same process, same
                # arguments) has the chunk bounds of the files as they are now
                sizes2 = [max(0 if case.get('offset', 0) else 1, x + dx) for x, dx in zip(case['sizes'], case['rewrite'])]
                for p, x in zip(paths, sizes2):
                    with open(p, 'wb') as f:
                        f.write(b'\x5a' * case.get('offset', 0))
                        f.write(np.zeros((x, case['nch']), dtype=np.int16).tobytes())
                r2 = T.get_ephys_reader(paths, sample_rate=sr, dtype=np.int16, n_channels=case['nch'],
                                        offset=case.get('offset', 0))
                b2 = [int(x) for x in r2.chunk_bounds]
                cum = [int(x) for x in np.cumsum([0] + sizes2)]
                out['rewritten'] = dict(sizes=[int(x) for x in sizes2], n_samples=int(r2.n_samples), bounds=b2,
                                        iter=_pairs(r2.iter_chunks()), file_bounds_in=bool(all(c in b2 for c in cum)))
                del r2
        return out
    if op == 'reader_array':
        sr = _rate(case)
        n = case['sizes'][0]
        arr = (np.arange(n, dtype=np.int16)[:, None] * 2 + np.arange(2, dtype=np.int16)[None, :]).astype(np.int16)
        via = case.get('via', 'array')
        if via == 'npy':
            # the same array through a .npy file (NpyEphysReader)
            with C.scratch_dir() as d:
                np.save(d / 'a.npy', arr)
                r = T.get_ephys_reader(d / 'a.npy', sample_rate=sr)
                out = _observe(r, arr)
                del r
            return out
        if via == 'random':
            # RandomEphysReader: the same constructor lines (traces.py:453); its samples are random, only the bounds and
            # the iterators are observed
            return _observe(T.RandomEphysReader(n, 2, sample_rate=sr), None)
        return _observe(T.get_ephys_reader(arr, sample_rate=sr), arr)
    if op == 'reader_cbin':
        import mtscomp
        import multiprocessing as mp
        n, nch = case['n'], 2
        with C.scratch_dir() as d:
            p = d / 'data.bin'
            (np.arange(n * nch, dtype=np.int16).reshape((n, nch)) % 50).tofile(p)
            mtscomp.compress(p, d / 'data.cbin', d / 'data.ch', sample_rate=case['sr'],
                             n_channels=nch, dtype=np.int16, chunk_duration=case['cd'],
                             n_threads=1, check_after_compress=False, quiet=True)
            half = None
            if case.get('bypath'):
                # the compressed file given BY PATH: `_get_ephys_constructor` creates the mtscomp reader itself, with
                # n_threads = cpu_count() // 2 (traces.py:483).  `cpus`: the same call on a machine with that many CPUs
                import os
                real_count, real_os_count = mp.cpu_count, os.cpu_count
                machine_half = mp.cpu_count() // 2
                if case.get('cpus'):
                    mp.cpu_count = os.cpu_count = lambda k=case['cpus']: k
                try:
                    half = mp.cpu_count() // 2
                    try:
                        r = T.get_ephys_reader(str(d / 'data.cbin') if case['bypath'] == 'str' else d / 'data.cbin')
                    except ZeroDivisionError as e:
                        if half >= 1:
                            raise
                        return dict(bs0='ZeroDivisionError: %s' % e)      # one CPU: n_threads = 0 (environment)
                finally:
                    mp.cpu_count, os.cpu_count = real_count, real_os_count
                if half < 1:
                    return dict(bs0='opened')
                rd = r.reader
            else:
                rd = mtscomp.Reader(n_threads=case['bs'])
                rd.open(d / 'data.cbin', d / 'data.ch')
                r = T.get_ephys_reader(rd)
            out = dict(bounds=[int(x) for x in r.chunk_bounds],
                       iter=_pairs(r.iter_chunks(cache=case['cache'])),
                       n_samples=int(r.n_samples), bs=int(rd.batch_size), cpu_half=half,
                       machine_half=machine_half if case.get('bypath') else None)
            # further complete passes over the SAME reader (cache on/off in any sequence): every pass tiles the
            # recording like the first
            again = []
            for cache in case.get('again', []):
                try:
                    again.append(_pairs(r.iter_chunks(cache=cache)))
                except Exception as e:  # noqa
                    again.append('%s: %s' % (type(e).__name__, str(e)[:100]))
            out['again'] = again
            # a DERIVED reader (channel selection, what `model.traces` is): its own iterator
            try:
                dr = r[:, [1, 0]]
                out['derived'] = dict(bounds=[int(x) for x in dr.chunk_bounds], n_samples=int(dr.n_samples),
                                      iter=_pairs(dr.iter_chunks(cache=case['cache'])))
            except Exception as e:  # noqa
                out['derived'] = '%s: %s' % (type(e).__name__, str(e)[:100])
            rd.close()
        return out
    raise ValueError(op)


def _all_passes(ok):
    """every list of intervals a real flat / array reader handed out: first pass, further passes, derived readers"""
    return [ok['iter']] + list(ok['passes']) + [ok['derived'][k]['iter'] for k in ('cols', 'arith')]


PASS_NAMES = ['iter_chunks()', 'a second iter_chunks()', 'iter_chunks(cache=False)', 'iter_chunks(cache=True)',
              'reader[:, cols].iter_chunks()', '(reader * 2).iter_chunks()']


def _cbin_passes(ok):
    d = ok.get('derived')
    return list(ok.get('again', [])) + [d['iter'] if isinstance(d, dict) else d]


def _exhibited(case, ok):
    """chunk length a real reader EXHIBITS: the largest gap between consecutive bounds (a lower bound of its chunk_size,
    which is a local variable of the constructor), and whether that IS the chunk_size: the second bound lies strictly
    inside the first file, so it was produced by the regular step"""
    b = ok['bounds']
    gaps = [y - x for x, y in zip(b, b[1:])]
    cs = max(gaps) if gaps and max(gaps) > 0 else 0
    exact = len(b) >= 2 and b[0] == 0 and 0 < b[1] < case['sizes'][0] and b[1] == cs
    return cs, exact


def model_query(case, impl_res):
    q = {k: v for k, v in case.items() if not k.startswith('_')}
    ok = impl_res.get('ok')
    op = case['op']
    if op in ('reader_flat', 'reader_array'):
        # the model gets the exact value of the rate, never a chunk length computed in Python
        q = dict(p=PID, op='get_chunk_bounds', sizes=case['sizes'], rate=_rat(_rate_exact(case)))
        kind = case.get('srkind', 'float')
        if kind in OTHER_PREC:
            q['prec'] = OTHER_PREC[kind]
        if ok is not None:
            q['impl'] = ok['bounds']
            q['impl_iters'] = _all_passes(ok)
            if kind in OTHER_PREC:
                q['impl_cs'] = _exhibited(case, ok)[0]
            if ok.get('rewritten'):
                rw = ok['rewritten']
                q['_second'] = dict(p=PID, op='get_chunk_bounds', sizes=rw['sizes'], cs=max(1, sum(rw['sizes'])),
                                    impl=rw['bounds'], impl_iters=[rw['iter']])
        return q
    if op == 'reader_cbin':
        q = dict(p=PID, op='iter_mts', n=case['n'], cd=_rat(case['cd']), rate=_rat(case['sr']))
        if ok is None or 'bs0' in ok:
            q.update(bounds=[0, case['n']], bs=case.get('bs', 1))
        else:
            # batch size: what the real mtscomp reader reports (it is what the real iterator uses)
            q.update(bounds=ok['bounds'], impl=ok['iter'], bs=ok['bs'],
                     impl_iters=[it for it in _cbin_passes(ok) if isinstance(it, list)])
        return q
    if ok is None:
        if op == 'chunk_data':
            q['op'] = 'chunk_bounds'
        return q
    if op == 'chunk_bounds':
        q['impl'] = ok
    elif op == 'chunk_data':
        q.update(op='chunk_bounds', impl=ok['bounds'])
    elif op in ('excerpts', 'get_chunk_bounds'):
        q['impl'] = ok
    return q


BROKEN = ('satisfies every clause of the statement; differs from the model of the code: correspondence broken '
          '(the property is no longer SHOWN to hold by the tie to the model)')


def _corr(what):
    return 'CORR: %s - %s' % (what, BROKEN)


def _type_range_ok(case):
    """is the exact product 600*rate inside the range where a multiplication in the precision of the rate's type is
    correctly rounded to p bits and finite (normal range of the type)?  Outside, the envelope says nothing"""
    kind = case['srkind']
    fi = np.finfo(np.float64 if kind == 'longdouble' else getattr(np, kind))     # (the long double rates are doubles)
    x = 600 * _rate_exact(case)
    return x == 0 or Fraction(float(fi.tiny)) <= abs(x) <= Fraction(float(fi.max)) * Fraction(1023, 1024)


def _judge_reader(case, impl_res, m, second):
    """flat / in-memory / npy / random readers.  Order: (1) does the constructor accept exactly the rates it must;
    (2) every clause of the statement on the real output (SPEC); (3) only then the comparison with the model (CORR)"""
    kind = case.get('srkind', 'float')
    other = kind in OTHER_PREC
    if other:
        if not _type_range_ok(case):
            return None         # product outside the normal range of the rate's type: not judged (tallied)
        lo, hi = m['env_lo'], m['env_hi']
        must_accept, must_reject = lo >= 1, hi <= 0
        dom = 'every rounding of 600*rate to %d bits gives a chunk length in [%d, %d]' % (OTHER_PREC[kind], lo, hi)
    else:
        # C01.RateOK: 1/2 + 2^-54 < 600*rate < 2^1024 - 2^970 - the rates on which the float model is the code; below, the
        # model rejects (chunkSizeFl_pos_iff, readerChunkBoundsFl_rejects: AssertionError); above, round(inf): OverflowError
        must_accept = m['rate_ok'] is True
        must_reject = not must_accept
        if must_accept != (m.get('model') is not None) and not m.get('overflow'):
            return 'MACHINERY: RateOK and readerChunkBoundsFl disagree on the rate %r' % case['sr']
        dom = 'C01.RateOK is %s (model chunk length %s)' % (m['rate_ok'], m.get('cs'))
    if 'raised' in impl_res:
        if must_accept:
            return 'SPEC: real code raised %s (%s) at %s on an in-domain input (%s)' % (
                impl_res['raised'], impl_res['msg'], impl_res['where'], dom)
        if must_reject and impl_res['raised'] not in ('AssertionError', 'OverflowError'):
            return _corr('the constructor refuses the sample rate %r, as the model does, but with %s (%s) instead of the '
                         'AssertionError of `assert chunk_size > 0` / the OverflowError of round(inf); a rejected rate'
                         % (case['sr'], impl_res['raised'], impl_res['msg'][:80]))
        return None
    ok = impl_res['ok']
    n = sum(case['sizes'])
    cs_obs, cs_exact = _exhibited(case, ok)
    # (2) the clauses.  Chunk length of the gap clause: the model's for binary64 rates it accepts; otherwise the one the
    # reader exhibits (other precisions), or none (a rate the model rejects: only the clauses without the chunk length)
    if ok['n_samples'] != n:
        return 'SPEC: n_samples differs from the total length'
    key = 'impl_spec' if m.get('impl_spec') is not None else 'impl_spec_nocs'
    if m.get(key) is not True:
        return ('SPEC: C16 reader clause false on the real bounds (from 0 to the sample count, strictly increasing, every file '
                'boundary, never further apart than %s samples): %s' % (
                    (m.get('cs') if not other else cs_obs) if key == 'impl_spec' else 'the recording', str(ok['bounds'])[:200]))
    tiles = m.get('impl_iters_tile')
    if not isinstance(tiles, list) or len(tiles) != len(PASS_NAMES):
        return 'MACHINERY: driver did not judge the %d iterator passes: %r' % (len(PASS_NAMES), tiles)
    for name, t, it in zip(PASS_NAMES, tiles, _all_passes(ok)):
        if t is not True:
            return 'SPEC: the non-empty intervals of %s do not tile the recording in order: %s' % (name, str(it)[:200])
    if ok.get('concat_ok') is False:
        return 'SPEC: reader[i0:i1] over iter_chunks, stacked, differs from the recording'
    for name in ('cols', 'arith'):
        d = ok['derived'][name]
        if d['n_samples'] != n:
            return 'SPEC: n_samples of the derived reader (%s) differs from the total length' % name
        if d.get('concat_ok') is False:
            return 'SPEC: derived reader (%s): d[i0:i1] over d.iter_chunks(), stacked, differs from the derived recording' % name
    rw = ok.get('rewritten')
    if rw:
        if second is None or 'ok' not in second:
            return 'MACHINERY: no verdict of the driver on the rewritten recording: %r' % (second,)
        s2 = second['ok']
        if not (rw['n_samples'] == sum(rw['sizes']) and s2.get('impl_spec') is True and rw['file_bounds_in'] and
                s2.get('impl_iters_tile') == [True]):
            return ('SPEC: after the files were replaced (same paths) a newly opened reader does not have the chunk bounds '
                    'of the new recording: %s' % rw)
    # (3) the model of the code
    if must_reject:
        return _corr('the real constructor ACCEPTS the sample rate %r (chunk length exhibited: %s) that the model rejects '
                     '(%s); its output' % (case['sr'], cs_obs, dom))
    if m.get('model_spec') is False:
        return 'MACHINERY: model output rejected by its own spec (contradicts the theorem)'
    if not other and m.get('reader') != m['model']:
        return 'MACHINERY: readerChunkBoundsFl differs from getChunkBounds with chunkSizeFl'
    if other:
        if cs_obs > m['env_hi'] or (cs_exact and cs_obs < m['env_lo']):
            return _corr('chunk length %d exhibited by the reader at the %s rate %r is not a rounding of 600*rate in that '
                         'precision (envelope [%d, %d]); the output' % (cs_obs, kind, case['sr'], m['env_lo'], m['env_hi']))
    elif not (m['env_lo'] <= m['cs'] <= m['env_hi']):
        return 'MACHINERY: chunkSizeFl outside its envelope (contradicts chunkSizeFl_in_envelope)'
    if ok['bounds'] != m['model'] or ok['iter'] != m['iter'] or ok['part_bounds'] != m['part_bounds']:
        return _corr('reader bounds / iterator / part bounds (chunk length of the model: %s, exhibited: %s); the real output'
                     % (m.get('cs'), cs_obs))
    for name, it in list(zip(PASS_NAMES, _all_passes(ok)))[1:]:
        if it != ok['iter']:
            return _corr('%s yields other intervals than the first pass; each pass' % name)
    for name in ('cols', 'arith'):
        d = ok['derived'][name]
        if d['bounds'] != ok['bounds'] or d['part_bounds'] != ok['part_bounds']:
            return _corr('chunk / part bounds of the derived reader (%s) differ from its parent\'s; the output' % name)
    return None


def _judge_cbin(case, impl_res, m):
    if m.get('table_inrange') is False:
        return None
    if 'raised' in impl_res:
        return 'SPEC: real code raised %s (%s) at %s on an in-domain input' % (
            impl_res['raised'], impl_res['msg'], impl_res['where'])
    ok = impl_res['ok']
    if 'bs0' in ok:
        return None     # by path on a one-cpu machine: n_threads = 0, outside `0 < bs` (tallied with what the real code did)
    if m.get('model_spec') is False:
        return 'MACHINERY: model output rejected by its own spec (contradicts the theorem)'
    if ok['n_samples'] != case['n']:
        return 'SPEC: n_samples of the compressed reader differs from the length of the recording'
    if not case.get('bypath') and ok['bs'] != case['bs']:
        return 'MACHINERY: mtscomp reader opened with n_threads=%s reports batch_size %s' % (case['bs'], ok['bs'])
    if 'table_spec' not in m:
        return 'MACHINERY: no positive chunk length for cd=%r rate=%r' % (case['cd'], case['sr'])
    if m['table_spec'] is False:
        return ('SPEC: compressed reader chunk bounds do not increase strictly from 0 to n or are further apart '
                'than the chunk length (%s samples)' % m['table_cs'])
    if m.get('impl_spec') is not True:
        return 'SPEC: the non-empty intervals of the compressed iter_chunks do not tile the recording in order: %s' % str(ok['iter'])[:200]
    passes = _cbin_passes(ok)
    names = ['pass %d over the same compressed reader (cache=%s after %s)' % (k + 2, c, [case['cache']] + case['again'][:k])
             for k, c in enumerate(case.get('again', []))] + ['reader[:, cols].iter_chunks(cache=%s)' % case['cache']]
    tiles = iter(m.get('impl_iters_tile') or [])
    for name, it in zip(names, passes):
        if not isinstance(it, list):
            return 'SPEC: %s raised %s' % (name, it)
        if next(tiles, None) is not True:
            return 'SPEC: the non-empty intervals of %s do not tile the recording in order: %s' % (name, str(it)[:160])
    d = ok['derived']
    if d['n_samples'] != case['n']:
        return 'SPEC: n_samples of the derived compressed reader differs from the length of the recording'
    # the model of the code
    if case.get('bypath') and ok['bs'] not in (ok['cpu_half'], ok['machine_half']):
        # (a batch size equal to half the CPUs of THIS machine: the code asks for the CPU count in a way the simulation does
        # not reach - tallied, not judged)
        return _corr('a compressed file opened by path has batch size %s, not cpu_count() // 2 = %s (traces.py:483); the '
                     'iterator' % (ok['bs'], ok['cpu_half']))
    if ok['iter'] != m['model']:
        return _corr('compressed iter_chunks (batch size %s); the real output' % ok['bs'])
    for name, it in zip(names, passes):
        if it != ok['iter']:
            return _corr('%s yields other intervals than the first pass; each pass' % name)
    if d['bounds'] != ok['bounds']:
        return _corr('chunk bounds of the derived compressed reader differ from its parent\'s; the output')
    if ok['bounds'] != m['table']:
        return _corr('chunk table of the compressed file differs from the model of mtscomp\'s table; the real table')
    return None


def judge(case, impl_res, ans):
    if 'err' in ans:
        return 'MACHINERY: driver error %s' % ans['err']
    m = ans['ok']
    op = case['op']
    if op in ('reader_flat', 'reader_array'):
        return _judge_reader(case, impl_res, m, ans.get('second'))
    if op == 'reader_cbin':
        return _judge_cbin(case, impl_res, m)
    if 'raised' in impl_res:
        return 'SPEC: real code raised %s (%s) at %s on an in-domain input' % (
            impl_res['raised'], impl_res['msg'], impl_res['where'])
    ok = impl_res['ok']
    if m.get('model_spec') is False:
        return 'MACHINERY: model output rejected by its own spec (contradicts the theorem)'
    if op == 'get_excerpts':
        n, k, size = case['n'], case['k'], case['size']
        if n < k * size:
            if ok != list(range(n)):
                return 'SPEC: data shorter than requested but get_excerpts is not the whole data'
        else:
            if any(b <= a for a, b in zip(ok, ok[1:])) or len(ok) > k * size or \
                    any(not (0 <= x < n) for x in ok):
                return 'SPEC: excerpts not increasing/disjoint/in-bounds or too many samples'
        if ok != m['model']:
            return _corr('get_excerpts; the real output')
        return None
    if m.get('impl_spec') is False:
        return 'SPEC: C16 predicate false on the real output'
    if op == 'chunk_data':
        n, cs = case['n'], case['cs']
        flat = [x for k in ok['kept'] for x in k]
        if flat != list(range(n)):
            return 'SPEC: kept parts (data_chunk) do not concatenate to the data'
        for k, f in zip(ok['kept'], ok['full']):
            if not set(k) <= set(f) or len(f) > cs:
                return 'SPEC: kept part outside its chunk data or chunk larger than chunk size'
        if ok['bounds'] != m['model']:
            return _corr('chunk_bounds tuples; the real output')
        return None
    if ok != m['model']:
        return _corr('output of %s; the real output' % op)
    return None


def nontrivial(case):
    op = case['op']
    if op in ('chunk_bounds', 'chunk_data'):
        return case['n'] > case['cs']
    if op in ('excerpts', 'get_excerpts'):
        return case['n'] > case['size'] and case['k'] >= 2
    if op == 'reader_cbin':
        return True
    if 'sr' in case:
        return sum(case['sizes']) > 600 * case['sr'] + 1 or len(case['sizes']) > 1
    return sum(case['sizes']) > case['cs'] or len(case['sizes']) > 1


def tally(rep, case, impl_res, ans):
    rep.count('op:' + case['op'])
    if case['op'] == 'reader_flat' and case.get('rewrite'):
        rep.count('same_paths_rewritten_and_reopened')
    if case['op'] == 'reader_flat' and 0 in case['sizes']:
        rep.count('header_only_file:%s' % ('first' if case['sizes'][0] == 0 else 'later'))
    if case['op'] == 'reader_cbin':
        rep.count('passes_over_one_compressed_reader:%s' % ([case['cache']] + case.get('again', [])))
        okc = impl_res.get('ok') or {}
        if case.get('bypath'):
            rep.count('cbin opened by path (%s), cpus %s: %s' % (
                case['bypath'], case.get('cpus') or 'of this machine',
                'n_threads = 0, outside 0 < bs (not judged): real %s' % okc['bs0'] if 'bs0' in okc else
                'batch size %s%s' % (okc.get('bs'), '' if okc.get('bs') == okc.get('cpu_half') else ' (simulated CPU count not honoured)')
                if okc else 'raised %s' % impl_res.get('raised')))
        else:
            rep.count('cbin opened as mtscomp.Reader object')
    if 'ok' in impl_res and case['op'] in ('chunk_bounds',):
        rep.count('chunks:%s' % min(len(impl_res['ok']), 6))
    if case['op'] in ('reader_flat', 'reader_array') and 'ok' in ans:
        kind_ = case.get('srkind', 'float')
        mm = ans['ok']
        real = 'raised %s' % impl_res['raised'] if 'raised' in impl_res else 'accepted'
        rep.count('sample_rate given as:%s' % kind_)
        if kind_ in OTHER_PREC:
            if not _type_range_ok(case):
                rep.count('chunk_length_600s*rate (%s): product outside the normal range of the type (not judged): real %s' % (kind_, real))
            else:
                lo, hi = mm['env_lo'], mm['env_hi']
                what = 'must be rejected' if hi <= 0 else 'must be accepted' if lo >= 1 else 'either'
                if 'ok' in impl_res:
                    cs, exact = _exhibited(case, impl_res['ok'])
                    if exact and hi > lo:
                        what += ', %s end of an envelope of %d lengths' % ('lower' if cs == lo else 'upper' if cs == hi else 'inside', hi - lo + 1)
                rep.count('chunk_length_600s*rate (%s): envelope says %s: real %s' % (kind_, what, real))
        else:
            x = 600 * _rate_exact(case)
            kind = 'whole' if x.denominator == 1 else 'tie(.5)' if x.denominator == 2 else 'fractional'
            rep.count('float product 600*rate: %s' % ('exact' if mm.get('product_is_double') else 'rounded'))
            if mm.get('exact_cs') is not None and mm.get('exact_cs') != mm.get('cs'):
                kind = 'float product rounds across a .5 tie: exact-rational model %s, float model %s' % (
                    'differs', 'used')
            elif case.get('tie_ulps') is not None:
                kind = 'within a few ulps of a .5 tie, same chunk length as the exact product'
            if mm.get('rate_ok') is not True:
                kind = 'outside RateOK (%s): model rejects, real %s' % (
                    'float product overflows' if mm.get('overflow') else
                    'float product subnormal or zero' if mm.get('inrange') is False or x == 0 else
                    'negative rate' if x < 0 else 'chunk length 0', real)
            rep.count('chunk_length_600s*rate:' + kind)
        if 'ok' in impl_res:
            rep.count('iterator passes per reader (default x2, cache=False, cache=True, reader[:, cols], reader * 2)', 6)
    if case['op'] == 'reader_cbin' and 'ok' in ans:
        mm = ans['ok']
        if mm.get('table_exact_cs') is not None and mm.get('table_exact_cs') != mm.get('table_cs'):
            rep.count('cbin chunk length: float product rounds across a .5 tie (exact-rational model differs)')
    if case['op'] == 'reader_array':
        rep.count('reader_array_via:' + case.get('via', 'array'))
    if case['op'] == 'reader_flat':
        rep.count('files:%d' % len(case['sizes']))
        rep.count('header_offset_rows:%s' % ('0' if not case.get('offset') else
                                             '<1' if case['offset'] < 2 * case['nch'] else '>=1'))


def classify(case, impl_res, ans, why):
    return dict(op=case['op'], kind=why.split(':')[0],
                raised=impl_res.get('raised'), where=impl_res.get('where'))


def shrink(case):
    for k in ('n', 'cs', 'ov', 'k', 'size'):
        if k in case and isinstance(case[k], int) and case[k] > 0:
            for v in (case[k] // 2, case[k] - 1):
                c = dict(case); c[k] = v
                if _indom(c):
                    yield c
    if 'sizes' in case:
        s = case['sizes']
        if len(s) > 1:
            for i in range(len(s)):
                c = dict(case); c['sizes'] = s[:i] + s[i + 1:]
                yield c
        for i in range(len(s)):
            if s[i] > 1:
                c = dict(case); c['sizes'] = s[:i] + [s[i] - 1] + s[i + 1:]
                yield c


def _indom(c):
    op = c['op']
    if op in ('chunk_bounds', 'chunk_data'):
        return c['n'] >= 0 and c['cs'] >= 1 and 0 <= c['ov'] < c['cs']
    if op in ('excerpts',):
        return c['n'] >= 0 and c['k'] >= 2 and c['size'] >= 0
    if op == 'get_excerpts':
        return c['n'] >= 0 and c['k'] >= 0 and c['size'] >= 1
    if op == 'reader_cbin':
        return c['n'] >= 1
    if op in ('reader_flat', 'reader_array'):
        return sum(c['sizes']) >= 1
    return c.get('cs', 1) >= 1


def _rate_for(cs):
    """a float sample rate whose 600 s chunk is about `cs` samples (the Lean float model says how many exactly)"""
    return cs / 600.


def _ulps(x, d):
    for _ in range(abs(d)):
        x = math.nextafter(x, math.inf if d > 0 else -math.inf)
    return x


FRACTIONAL_RATES = [0.035, 0.0357, 0.0123, 0.0442, 0.00834, 0.0851, 0.17, 0.0699]   # 600*rate is not a whole number
# dyadic rates m/2^j: 600*rate = 75m/2^(j-3) is computed exactly by the float product.  Exact .5 ties
# (37.5 -> 38, 112.5 -> 112, 187.5 -> 188, 262.5 -> 262: round half to EVEN) and other fractional parts
DYADIC_RATES = [1 / 16, 3 / 16, 5 / 16, 7 / 16, 1 / 32, 3 / 32, 1 / 64, 3 / 64, 5 / 64, 1 / 128, 3 / 128, 1 / 256, 3 / 256, 5 / 256,
                1 / 512, 1 / 1024]
REJECTED_RATES = [1 / 2048, 1 / 4096, 0.0008]      # int(round(600*rate)) = 0: the constructors assert


def gen(tier, rng):
    q = tier == 'quick'
    for i, sr in enumerate(FRACTIONAL_RATES + DYADIC_RATES):
        big = int(600 * sr) + 1
        lists = [[100], [30, 55, 41], [7, 160], [64, 64, 3, 90], [2 * big + 3, big, max(1, big - 1)]]
        if q and sr in DYADIC_RATES:
            lists = [lists[i % 4], lists[4]]
        for sizes in lists:
            yield dict(p=PID, op='reader_flat', sizes=list(sizes), nch=1 + i % 3, offset=0, sr=sr)
        yield dict(p=PID, op='reader_array', sizes=[150 + i], sr=sr, via=['array', 'npy'][i % 2])
    for sr in REJECTED_RATES:
        yield dict(p=PID, op='reader_flat', sizes=[5, 3], nch=1, offset=0, sr=sr)
        yield dict(p=PID, op='reader_array', sizes=[7], sr=sr)
    # rates whose product 600*rate lands ON or within a few ulps of a .5 tie: the float product may be the tie itself
    # (then round takes the even neighbour) although the exact product is beside it — e.g. 0.0225: exact 13.4999.., float
    # 13.5 -> 14.  Includes the smallest accepted chunk (0.5 + 2^-54 is where the constructor starts to accept).
    ks = [0, 1, 4, 6, 11, 13, 16, 28, 29, 37, 112, 187] if q else list(range(0, 60)) + [112, 187, 262, 1000, 17999]
    for n_, k in enumerate(ks):
        for d in ((-2, 0, 1, 3) if q else range(-3, 4)):
            sr = _ulps((k + .5) / 600., d)
            big = k + 2
            if (n_ + d) % 2 and k < 2000:      # (the int16 test recording of reader_flat holds row numbers * 3)
                yield dict(p=PID, op='reader_flat', sizes=[2 * big + 3, big, max(1, big - 1)], nch=1 + n_ % 2, offset=0,
                           sr=sr, tie_ulps=d)
            else:
                yield dict(p=PID, op='reader_array', sizes=[3 * big + 1], sr=sr, via=['array', 'npy'][(n_ + d) % 4 // 2],
                           tie_ulps=d)
    # the boundary of what the constructors accept (C01.RateOK; the same doubles the C01 check walks through): the doubles at
    # and next to 1/1200 Hz, the overflow threshold of 600.0*rate, a subnormal product; zero and negative rates.  The
    # constructor must accept exactly the rates of RateOK and raise on the others
    for i, sr in enumerate(boundary_rates() + [0.0, -1.0, -0.0225, 1e-320, -3e305, 5e-324]):
        if i % 5 == 0:
            yield dict(p=PID, op='reader_flat', sizes=[5, 3], nch=1, offset=0, sr=sr)
        else:
            yield dict(p=PID, op='reader_array', sizes=[7 + i], sr=sr, via=['array', 'random', 'array', 'npy'][i % 4 if i % 7 == 0 else i % 3])
    # the sample rate as another Python / NumPy number whose product with 600.0 is a binary64 product
    for i, (sr, kind) in enumerate([(1, 'int'), (2, 'int'), (30000, 'int'), (0, 'int'), (3, 'int32'), (1, 'int32'), (-1, 'int32'),
                                    (0.0225, 'float64'), (1 / 16, 'float64'), (0.035, 'float64'), (1 / 1200, 'float64'),
                                    (3e305, 'float64'), (2 ** 53 - 1, 'int')]):
        yield dict(p=PID, op='reader_array', sizes=[1300 + i], sr=sr, srkind=kind, via=['array', 'random'][i % 2])
    yield dict(p=PID, op='reader_flat', sizes=[700, 650, 3], nch=2, offset=0, sr=1, srkind='int')
    # ... and as a NumPy scalar of ANOTHER precision: the product is computed in that precision (Model/C16e.lean).  Rates
    # at and next to (in the type) a .5 tie of the product, e.g. np.float32(0.0375): float32 product 22.5 -> 22, binary64
    # product of the same rational 22.5000009 -> 23
    for kind in ('float32', 'float16', 'longdouble'):
        ty = getattr(np, kind)
        kk = ([0, 1, 2, 13, 22, 37] if q else list(range(0, 40)) + [112, 187]) if kind != 'longdouble' else ([13, 22] if q else list(range(0, 40)))
        for n_, k in enumerate(kk):
            base = ty((k + .5) / 600.)
            for d in (-1, 0, 1):
                v = base if d == 0 else np.nextafter(base, ty(np.inf if d > 0 else -np.inf))
                if kind == 'longdouble':
                    v = _ulps((k + .5) / 600., d)           # a double, handed over as a long double
                sr = float(v)
                big = k + 2
                c = dict(p=PID, op='reader_array', sizes=[3 * big + 1], sr=sr, srkind=kind,
                         via=['array', 'random', 'array', 'npy'][(n_ + d) % 4 if (n_ + d) % 5 == 0 else (n_ + d) % 3 % 2])
                if (n_ + d) % 6 == 0 and k:
                    c = dict(p=PID, op='reader_flat', sizes=[2 * big + 3, big, max(1, big - 1)], nch=2, offset=0, sr=sr, srkind=kind)
                yield c
        for sr in (0.0375, 0.0225, 0.1, 1 / 16, 1 / 2048, 1 / 1200, 0.17):
            yield dict(p=PID, op='reader_array', sizes=[int(600 * sr) * 3 + 5], sr=float(ty(sr)), srkind=kind)
    yield dict(p=PID, op='reader_array', sizes=[50], sr=200.0, srkind='float16')        # float16 product overflows: not judged
    # an ordinary acquisition rate and decimal rates: far from every tie
    for sr in (30000., 25000., 2500.1, 0.1, 0.37, 1.23):
        yield dict(p=PID, op='reader_array', sizes=[int(600 * sr) * 2 + 7 if sr < 10 else 1000], sr=sr)
    N, CS = (40, 14) if q else (70, 24)
    # 1. exhaustive chunk_bounds grid (every residue of n mod (cs-ov), odd overlaps)
    for n in range(0, N + 1):
        for cs in range(1, CS + 1):
            for ov in range(0, cs):
                yield dict(p=PID, op='chunk_bounds', n=n, cs=cs, ov=ov)
    for n in range(0, 25 if q else 40):
        for cs in range(1, 9 if q else 13):
            for ov in range(0, cs):
                yield dict(p=PID, op='chunk_data', n=n, cs=cs, ov=ov)
    # 2. excerpts grid
    NE, KE, SE = (30, 6, 8) if q else (45, 8, 11)
    for n in range(0, NE + 1):
        for k in range(0, KE + 1):
            for size in range(0, SE + 1):
                if k >= 2:
                    yield dict(p=PID, op='excerpts', n=n, k=k, size=size)
                if size >= 1:   # a zero excerpt size is a degenerate request (np.concatenate of nothing)
                    yield dict(p=PID, op='get_excerpts', n=n, k=k, size=size)
    # 3. all size lists of <= 3 files x chunk lengths (function level, then real readers)
    S = 6 if q else 9
    for k in (1, 2, 3):
        for sizes in itertools.product(range(1, S + 1), repeat=k):
            for cs in range(1, 9 if q else 12):
                yield dict(p=PID, op='get_chunk_bounds', sizes=list(sizes), cs=cs)
    # size lists with EMPTY parts (a file holding only its header): leading, inner, trailing, all
    for sizes in itertools.product(range(0, 4), repeat=3):
        if 0 in sizes:
            for cs in (1, 2, 3):
                yield dict(p=PID, op='get_chunk_bounds', sizes=list(sizes), cs=cs)
                sr = _rate_for(cs)
                if sum(sizes) > 0 and (sum(sizes) + cs) % (3 if q else 1) == 0:
                    yield dict(p=PID, op='reader_flat', sizes=list(sizes), sr=sr, nch=2, offset=[4, 3, 8][cs % 3], names='idx')
    S2 = 4 if q else 6
    for k in (1, 2, 3):
        for sizes in itertools.product(range(1, S2 + 1), repeat=k):
            for cs in (1, 2, 3, 5, 7):
                sr = _rate_for(cs)
                if sr is not None:
                    nch = 1 + (sum(sizes) % 3)
                    kk = sum(sizes) * 7 + cs + k
                    # header offsets: none, less than a row, exactly one row, several rows
                    yield dict(p=PID, op='reader_flat', sizes=list(sizes), sr=sr, nch=nch,
                               offset=[0, 1, 2 * nch, 2 * nch * 3, 4, 0][kk % 6], names=['idx', 'rev', 'nat'][kk % 3],
                               rewrite=[[3, 0, -1][(kk + i) % 3] for i in range(len(sizes))] if kk % 4 == 0 else None)
    for n in range(1, 12):
        for cs in (1, 2, 3, 5, 7, 20):
            sr = _rate_for(cs)
            if sr is not None:
                yield dict(p=PID, op='reader_array', sizes=[n], sr=sr, via=['array', 'npy'][(n + cs) % 2])
    # 4. compressed readers: lengths x chunk durations x threads x cache
    for n in ((5, 17, 40) if q else (1, 5, 17, 40, 64, 99)):
        # chunk length cd*10 samples: 5, 10 / 2.5 (tie -> 2), 7.5 (tie -> 8), 25; decimal durations: 0.35 (float product
        # exactly 3.5 -> 4 although the double 0.35 is below 7/20), 0.45 (4.5 -> 4), 0.15, 0.33
        for cd in ((0.5, 1.0, 0.25, 0.75, 0.35, 0.45) if q else (0.25, 0.5, 0.75, 1.0, 2.5, 0.125 * 3, 0.35, 0.45, 0.15, 0.33, 0.65)):
            for bs in (1, 2, 3):
                for cache in (False, True):
                    if q and cd in (0.25, 0.75, 0.35, 0.45) and (bs + (n % 3) + cache) % 3:
                        continue            # quick tier: a third of the tie chunk durations
                    yield dict(p=PID, op='reader_cbin', n=n, sr=10.0, cd=cd, bs=bs, cache=cache,
                               again=[[], [True], [False, True], [True, True]][(n + bs + int(cache)) % 4])
    # compressed files opened BY PATH: batch size cpu_count() // 2 on this machine and on simulated ones (2..9 CPUs; one
    # CPU: n_threads = 0, the real call raises - tallied)
    for i, (n, cd, cpus) in enumerate([(40, 0.5, None), (99, 0.5, 2), (99, 0.25, 5), (64, 0.5, 7), (99, 0.35, None), (17, 0.5, 1),
                                       (99, 0.5, 9), (40, 0.25, 3)] if q else
                                      [(n, cd, cpus) for n in (1, 17, 40, 99, 150) for cd in (0.25, 0.5, 0.35, 1.0)
                                       for cpus in (None, 1, 2, 3, 4, 5, 7, 9)]):
        yield dict(p=PID, op='reader_cbin', n=n, sr=10.0, cd=cd, bypath=['path', 'str'][i % 2], cpus=cpus, cache=bool(i % 3 != 1),
                   again=[[], [True], [False, True], [True, True]][i % 4])
    # 5. random larger cases
    R = 3000 if q else 60000
    for _ in range(R):
        t = rng.randrange(5)
        if t == 4:
            # in-memory / random readers at random sample rates of every kind (binary64 kinds: compared with the float model
            # and with RateOK; other precisions: clauses + envelope), many of them next to a .5 tie of the product
            kind = rng.pick(['float', 'float', 'float64', 'int', 'int32', 'float32', 'float16', 'longdouble'])
            if kind in ('int', 'int32'):
                sr = rng.pick([rng.randrange(-2, 12), rng.randrange(0, 2 ** 31 - 1)])
            else:
                sr = 10 ** (rng.random() * (5.5 if kind == 'float16' else 6.7) - (3.5 if kind == 'float16' else 4.5))
                if rng.random() < .4:
                    sr = (rng.randrange(0, 300) + .5) / 600.
                if kind in ('float32', 'float16'):
                    ty = getattr(np, kind)
                    v = ty(sr)
                    for _ in range(rng.randrange(0, 3)):
                        v = np.nextafter(v, ty(rng.pick([np.inf, -np.inf])))
                    sr = float(v)
                else:
                    sr = _ulps(sr, rng.randrange(-2, 3))
            n = int(abs(600 * sr)) * rng.randrange(1, 4) + rng.randrange(1, 9) if abs(600 * sr) < 2500 else rng.randrange(1, 60)
            yield dict(p=PID, op='reader_array', sizes=[n], sr=sr, srkind=kind, via=rng.pick(['array', 'array', 'random']))
        elif t == 0:
            cs = rng.randrange(1, 200)
            yield dict(p=PID, op='chunk_bounds', n=rng.randrange(0, 3000), cs=cs, ov=rng.randrange(0, cs))
        elif t == 1:
            yield dict(p=PID, op='excerpts', n=rng.randrange(0, 2000), k=rng.randrange(2, 30),
                       size=rng.randrange(0, 200))
        elif t == 2:
            yield dict(p=PID, op='get_excerpts', n=rng.randrange(0, 2000), k=rng.randrange(0, 30),
                       size=rng.randrange(1, 200))
        else:
            k = rng.randrange(1, 6)
            yield dict(p=PID, op='get_chunk_bounds', sizes=[rng.randrange(1, 400) for _ in range(k)],
                       cs=rng.randrange(1, 300))
