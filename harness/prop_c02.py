"""C02 — lazy reader expressions commute with eager evaluation; no aliasing (DESIGN.md §5 C02).

What is compared: what INDEXING a reader expression yields (values, shape, dtype up to byte order) and that the
expression is a reader. The ATTRIBUTES a derived reader carries (`shape`, `n_channels`, `dtype`, ... - a shallow copy
keeps the parent's: `reader[:, [0, 2]].shape == (n, 3)`, `(reader / 2).dtype == int16`) are OUTSIDE the statement,
which speaks of what indexing yields: no attribute of a derived reader is read here, by `impl` or by a judge.

BLOCKS THE CALLER POST-PROCESSES IN PLACE. An evaluation marked `scribble` is an ordinary evaluation (compared like any
other) after which the caller overwrites, in place, every cell of the block it was handed (what `blk -= median` does).
The block is the caller's: `np.vstack` in `__getitem__` always allocates it (Lean: `Model/C02c.getitem`, theorem
`scribble_preserves_returns`), as `expr(loaded)[rows]` is a new array for every arithmetic expression. Every LATER
evaluation of every reader of the family - the one that was indexed, its parent, siblings, readers derived afterwards -
must still yield `expr(recording as stored)[rows]`; the Lean driver runs the same history on array objects by address
and predicts the same cells. A block that refuses the write (read-only) is tallied, never judged."""
import itertools
import operator
import numpy as np
from . import common as C
from .prop_c01 import _pyitem, _pycols, col_selectors, lean_cols

PID = 'C02'
PARALLEL = True
BATCH = 600
BUDGET_S = {'quick': 80, 'thorough': 1200}
RULE = ('derivation histories over {pos, neg, add, radd, sub, rsub, mul, rmul, truediv, rtruediv, '
        'floordiv, rfloordiv, pow, rpow, column-select} with int and float scalars: all programs of '
        'depth <= 2 (quick) / 3 (thorough) as chains, then random derivation TREES (parents re-read '
        'after each derivation, siblings, grandchildren, evaluation order permuted), on flat '
        '(multi-file) / npy (C- and Fortran-ordered) / array / cbin readers, 1..4 channels and 6 native + 3 byte-swapped '
        'sample dtypes, followed by int / slice / list row indices (Python and NumPy-typed, in the chains too) with '
        'optional channel selector; between evaluations the caller may overwrite IN PLACE the block an evaluation handed out '
        '(rows within one part or across parts; flat files opened mode r or r+), after which every reader of the family is '
        're-read. A case = one history; non-trivial = history with >= 2 derivations and >= 2 evaluations')
ASSUMPTIONS = [
    'the numerical meaning and result dtype of each operator are NumPy\'s; the theorem is parametric in '
    'them; the harness applies the same NumPy operator eagerly (the property\'s own oracle)',
    'float `pow` is restricted to exponents {0,1,2} (NumPy SIMD pow is not bitwise reproducible across '
    'array shapes) and `rpow` is not applied to floating point readers, where a reader that became floating point through an '
    'earlier operator (true division, float operand) counts as one; histories on which eager NumPy itself raises are discarded as out of domain',
    'dtype is compared UP TO BYTE ORDER (kind and item size exactly): "the fully loaded array" of a recording stored '
    'byte-swapped (\'>i2\' files) has no byte order of its own - NumPy loads one file as \'>i2\' and concatenates several '
    'into native int16 - and every arithmetic operator of NumPy (unary plus included) returns native byte order, so the two '
    'readings differ only for programs WITHOUT an arithmetic operator (no-op, channel selections only), where the reader '
    'returns native int16 and indexing the \'>i2\' array keeps \'>i2\': same values, same arithmetic type. The eager oracle '
    'is applied to the array in its STORED byte order; the values must agree exactly',
    'the attributes of a derived reader (shape / n_channels / dtype stay the parent\'s) are outside the statement, which '
    'speaks of what indexing yields; none is read',
    '"the fully loaded array" is the recording the reader was opened on (the file(s) as written, the array as handed to '
    'get_ephys_reader - the harness gives the reader its own copy and never writes to it): the only thing the harness ever '
    'writes to is an array RETURNED by indexing a reader, which np.vstack in __getitem__ allocates anew on every call; that '
    'such a block can be written to is not demanded (a refused write is tallied only)',
]
DTYPES = ['int16', 'int32', 'int64', 'uint8', 'float32', 'float64']
SWAPPED = ['>i2', '>f4', '>u4']        # non-native byte order (flat files, .npy, in-memory arrays)


def _native(dtype):
    """the dtype with the byte order removed (kind and item size)"""
    return np.dtype(dtype).newbyteorder('=')


def _pool_dtype(dtype):
    """the name the operand pools are keyed by: unsigned types share uint8's pool (no negative operands)"""
    dt = _native(dtype)
    return 'uint8' if dt.kind == 'u' else dt.name
BIN = {'add': lambda a, x: a + x, 'radd': lambda a, x: x + a, 'sub': lambda a, x: a - x,
       'rsub': lambda a, x: x - a, 'mul': lambda a, x: a * x, 'rmul': lambda a, x: x * a,
       'truediv': lambda a, x: a / x, 'rtruediv': lambda a, x: x / a,
       'floordiv': lambda a, x: a // x, 'rfloordiv': lambda a, x: x // a,
       'pow': lambda a, x: a ** x, 'rpow': lambda a, x: x ** a}
UN = {'pos': operator.pos, 'neg': operator.neg}



def _is_reader(x):
    """`reader[:, cols]` is itself a reader (the PUBLIC class; no private attribute is consulted, so renaming an
    internal helper of the readers is not an alarm - refactoring C02 R1)"""
    from phylib.io.traces import BaseEphysReader
    return isinstance(x, BaseEphysReader)

def _base(n, nch, dtype, mode='ids'):
    ids = np.arange(n * nch).reshape((n, nch))
    if mode == 'extreme':
        # values at which step-by-step evaluation in the sample dtype wraps around or rounds: two
        # chained scalar operators are then NOT the same as one operator with the combined scalar
        dt = np.dtype(dtype)
        if dt.kind in 'iu':
            info = np.iinfo(dt)
            pool = [info.max, info.min, info.max - 1, info.min + 1, info.max // 2 + 1, info.min // 2 - 1 if info.min else 3,
                    1, 0, info.max // 3, 7]
        else:
            pool = [0.1, -0.3, 1e-3, 123456.7, -0.0, 1 / 3, 2.5e6 + 0.1, 0.7, -1e-5, 5e-324 if dt.itemsize == 8 else 1e-38]
        return np.array([pool[i % len(pool)] for i in range(n * nch)]).astype(dtype).reshape((n, nch))
    shift = 0 if np.dtype(dtype).kind == 'u' else (n * nch) // 2
    return (ids - shift).astype(dtype)


ARGKINDS = ['py', 'py', 'np:float32', 'np:int32', 'np:int64', 'np:float64', '0d:int64', '0d:float32', 'np:int16']


def _arg(step):
    """the scalar operand as the caller supplies it: a Python number, a NumPy scalar or a 0-d array"""
    a, kind = step['arg'], step.get('argkind', 'py')
    if kind == 'py':
        return a
    dt = np.dtype(kind[3:])
    if dt.kind in 'iu' and (isinstance(a, float) or not (np.iinfo(dt).min <= a <= np.iinfo(dt).max)):
        return a                       # a fractional / too large scalar stays a Python number
    return dt.type(a) if kind.startswith('np:') else np.array(a, dtype=dt)


def _apply(x, step):
    if step['k'] == 'cols':
        return x[:, _pycols(step['cols'], step.get('colkind', 'py'))]
    if step['op'] in UN:
        return UN[step['op']](x)
    return BIN[step['op']](x, _arg(step))


def _reader(case, d):
    from phylib.io.traces import get_ephys_reader
    parts, nch, dtype = case['parts'], case['nch'], case['dtype']
    A = _base(sum(parts), nch, dtype, case.get('base', 'ids'))
    b = case['backend']
    rd = None
    if b == 'flat':
        paths, off = [], 0
        for i, l in enumerate(parts):
            p = d / ('f%d.bin' % i)
            with open(p, 'wb') as f:
                f.write(b'\x02' * case.get('offset', 0))        # header bytes before the samples
                f.write(A[off:off + l].tobytes())
            off += l
            paths.append(p)
        r = get_ephys_reader(paths, sample_rate=100., dtype=np.dtype(dtype), n_channels=nch, offset=case.get('offset', 0),
                             **({'mode': case['mode']} if case.get('mode') else {}))
    elif b == 'npy':
        # the same recording saved from a C-ordered or a Fortran-ordered array
        np.save(d / 'a.npy', np.asfortranarray(A) if case.get('npy_order') == 'F' else A)
        r = get_ephys_reader(d / 'a.npy', sample_rate=100.)
    elif b == 'array':
        r = get_ephys_reader(A.copy(), sample_rate=100.)
    else:
        import mtscomp
        A.tofile(d / 'a.bin')
        mtscomp.compress(d / 'a.bin', d / 'a.cbin', d / 'a.ch', sample_rate=100., n_channels=nch,
                         dtype=np.dtype(dtype), chunk_duration=.03, n_threads=1,
                         check_after_compress=False, quiet=True)
        rd = mtscomp.Reader(n_threads=1)
        rd.open(d / 'a.cbin', d / 'a.ch')
        r = get_ephys_reader(rd)
    return A, r, rd


def _enc(x):
    """values, shape and dtype UP TO BYTE ORDER (see ASSUMPTIONS) of a block"""
    x = np.asarray(x)
    return dict(dtype=str(_native(x.dtype)), shape=list(x.shape), vals=[repr(v) for v in x.ravel().tolist()])


def impl(case):
    import warnings
    from phylib.io.traces import BaseEphysReader
    with C.scratch_dir() as d, warnings.catch_warnings():
        warnings.simplefilter('ignore')
        A, r, rd = _reader(case, d)
        readers = [r]
        eager = [A]
        outs = []
        eager_failed = None
        for k, s in enumerate(case['steps']):
            if s['k'] in ('derive', 'cols'):
                src = readers[s['from']]
                new = _apply(src, s)
                if not isinstance(new, BaseEphysReader):
                    return dict(not_reader=k, type=type(new).__name__)
                readers.append(new)
                try:
                    with np.errstate(all='ignore'):
                        eager.append(_apply(eager[s['from']], s))
                except Exception as e:  # out of domain: eager NumPy itself raises
                    eager.append(None)
                    eager_failed = '%s at step %d' % (type(e).__name__, k)
            elif s['k'] == 'fail':
                # a read that cannot succeed (a channel / sample index beyond the reader, where NumPy raises too):
                # whatever it does, it must leave the reader - and every reader derived before or after - as it was
                try:
                    with np.errstate(all='ignore'):
                        rr = readers[s['reader']]
                        w = eager[s['reader']].shape[1] if eager[s['reader']] is not None else case['nch']
                        if s['what'] == 'col':
                            rr[_pyitem(s['item'], 'py'), [w + 3]]
                        else:
                            rr[sum(case['parts']) + 5]
                except Exception:  # noqa
                    pass
            else:
                item = _pyitem(s['item'], s.get('kind', 'py'))
                cols = _pycols(s.get('cols'), s.get('kind', 'py'))
                E = eager[s['reader']]
                if E is None:
                    outs.append(dict(skip=True))
                    continue
                exp = E[item]
                if exp.ndim == 1:
                    exp = exp[np.newaxis, :]
                if cols is not None:
                    exp = exp[:, cols]
                try:
                    with np.errstate(all='ignore'):
                        got = readers[s['reader']][item] if cols is None else readers[s['reader']][item, cols]
                        if _is_reader(got):   # reader[:, cols] is itself a reader
                            got = got[:]
                    o = dict(got=_enc(got), exp=_enc(exp))
                    if s.get('scribble'):
                        # the caller post-processes ITS block in place: every cell changes
                        try:
                            got[...] = (np.asarray(got) == 0)
                            o['scribbled'] = 'written'
                        except ValueError as e:
                            o['scribbled'] = 'refused: %s' % str(e)[:60]
                    outs.append(o)
                except Exception as e:  # noqa
                    outs.append(dict(raised=type(e).__name__, msg=str(e)[:200], exp=_enc(exp)))
        del readers, r
        if rd is not None:
            rd.close()
    return dict(outs=outs, eager_failed=eager_failed, base=dict(_enc(A), dtype=A.dtype.str))


def model_query(case, impl_res):
    steps = []
    for k, s in enumerate(case['steps']):
        if s['k'] == 'derive':
            steps.append(dict(k='derive', tok=k, **{'from': s['from']}))
        elif s['k'] == 'cols':
            steps.append(dict(k='cols', cols=lean_cols(s['cols']), **{'from': s['from']}))
        elif s['k'] == 'fail':
            continue          # changes nothing: not part of the program the model sees
        else:
            steps.append(dict(k='eval', reader=s['reader'], item=s['item'], cols=lean_cols(s.get('cols')),
                              scribble=bool(s.get('scribble'))))
    return dict(p=PID, op='program', parts=case['parts'], nch=case['nch'], steps=steps)


def judge(case, impl_res, ans):
    if 'err' in ans:
        return 'MACHINERY: driver error %s' % ans['err']
    m = ans['ok']
    if m.get('store_refines_heap') is False:
        return 'MACHINERY: the statement-level store of _append_op does not refine the abstract heap (contradicts appendOp_refines_derive)'
    # the operation list every reader of the object store ends up with is its parent's plus its own step (what
    # `appendOp_statements` proves), named operation by operation
    want = [[]]
    for k, s in enumerate(case['steps']):
        if s['k'] == 'derive':
            want.append(want[s['from']] + [{'tok': [k]}])
        elif s['k'] == 'cols':
            c = lean_cols(s['cols'])
            want.append(want[s['from']] + [{'cols': 1 if 'idx' in c else 2}])
    if m.get('block_is_eval') is False:
        return 'MACHINERY: a block handed out by getitem (array objects by address) is not what eval says (contradicts getitem_block_fresh)'
    if any(mm and any(i >= 1000000000 for row in mm['ids'] for i in row) for mm in m['evals']):
        return 'MACHINERY: the Lean model reads back a cell the caller wrote into a block (contradicts scribble_preserves_returns)'
    if m.get('ops') != want:
        return 'MACHINERY: the operation lists of the object store are not parent + own step (contradicts appendOp_statements)'
    if 'raised' in impl_res:
        return 'SPEC: real code raised %s (%s) at %s while deriving readers' % (
            impl_res['raised'], impl_res['msg'], impl_res['where'])
    ok = impl_res['ok']
    if 'not_reader' in ok:
        return 'SPEC: expression at step %d is not a reader but %s' % (ok['not_reader'], ok['type'])
    base = np.array([eval(v, {'nan': float('nan'), 'inf': float('inf')}) for v in ok['base']['vals']],
                    dtype=ok['base']['dtype'])
    evs = [s for s in case['steps'] if s['k'] == 'eval']
    written = []       # evaluations whose block the caller has overwritten in place so far
    for i, (o, mm, s) in enumerate(zip(ok['outs'], m['evals'], evs)):
        if o.get('skip'):
            continue
        if 'raised' in o:
            return 'SPEC: evaluation %d raised %s (%s) although eager NumPy evaluation succeeds' % (
                i, o['raised'], o['msg'])
        if o['got'] != o['exp']:
            return 'SPEC: evaluation %d of reader %d differs from eager evaluation then indexing (value/dtype/shape)%s' % (
                i, s['reader'], ' - after the caller overwrote, in place, the block(s) handed out by evaluation(s) %s: a block '
                'returned by indexing shares memory with what the readers read from' % written if written else '')
        if o.get('scribbled') == 'written':
            written.append(i)
        # correspondence with the Lean model: which cells, which operators in which order
        if mm is None:
            return 'MACHINERY: Lean model raises on an in-domain evaluation'
        ids = np.array(mm['ids'], dtype=np.int64)
        x = base[ids.ravel()].reshape(ids.shape) if ids.size else base[:0].reshape(ids.shape if ids.ndim == 2 else (0, 0))
        try:
            with np.errstate(all='ignore'):
                for t in mm['toks']:
                    x = _apply(x, case['steps'][t])
            if _enc(x) != o['got'] and ids.size:
                return 'CORR: evaluation %d differs from the Lean model (cells %s, operators %s)' % (i, mm['ids'], mm['toks'])
        except Exception:
            pass
    return None


def nontrivial(case):
    st = case['steps']
    return sum(s['k'] not in ('eval', 'fail') for s in st) >= 2 and sum(s['k'] == 'eval' for s in st) >= 2


def tally(rep, case, impl_res, ans):
    rep.count('backend:' + case['backend'] + ('(F-ordered)' if case['backend'] == 'npy' and case.get('npy_order') == 'F' else ''))
    rep.count('dtype:' + case['dtype'])
    rep.count('channels:%d' % case['nch'])
    for st in case['steps']:
        if st['k'] == 'eval':
            rep.count('row_index:%s(%s)' % (next(iter(st['item'])), st.get('kind', 'py')))
    if case['backend'] == 'flat':
        rep.count('flat files opened mode=%s' % (case.get('mode') or 'r (default)'))
    # blocks the caller overwrites in place: which reader handed it out, rows from one part or several, and whether a
    # reader is evaluated afterwards (only then can shared memory show)
    arith, nscr = [False], 0
    bounds = np.cumsum([0] + list(case['parts']))
    outs = impl_res['ok'].get('outs', []) if 'ok' in impl_res else []
    evi = 0
    for st in case['steps']:
        if st['k'] in ('derive', 'cols'):
            arith.append(arith[st['from']] or st['k'] == 'derive')
        elif st['k'] == 'eval':
            o = outs[evi] if evi < len(outs) else {}
            evi += 1
            if nscr:
                rep.count('evaluation after the caller overwrote %s returned block(s) in place' % ('1' if nscr == 1 else '>= 2'))
            if st.get('scribble'):
                nscr += 1
                rows = np.arange(int(bounds[-1]))[_pyitem(st['item'], 'py')]
                rows = np.atleast_1d(rows)
                nparts = len({int(np.searchsorted(bounds, r, side='right')) for r in rows.tolist()})
                rep.count('block overwritten in place: from %s, rows of %s, write %s' % (
                    'an expression with an arithmetic operator' if arith[st['reader']] else
                    ('the recording itself / channel selections only' + (' + [rows, cols]' if st.get('cols') else '')),
                    'one part' if nparts == 1 else 'several parts',
                    (o.get('scribbled') or 'not reached').split(':')[0]))
    if np.dtype(case['dtype']).byteorder == '>':
        # evaluations of reader expressions WITHOUT an arithmetic operator on a byte-swapped recording: the only ones
        # where indexing the stored array keeps '>' and the reader answers native (ASSUMPTIONS)
        arith = [False]
        for st in case['steps']:
            if st['k'] in ('derive', 'cols'):
                arith.append(arith[st['from']] or st['k'] == 'derive')
            elif st['k'] == 'eval':
                rep.count('byte-swapped recording: evaluation of %s' % (
                    'an expression with an arithmetic operator' if arith[st['reader']] else
                    'the recording itself / channel selections only (dtype equal up to byte order only)'))
    for st in case['steps']:
        if st['k'] == 'derive' and 'arg' in st:
            rep.count('operand:' + st.get('argkind', 'py') + ('(left)' if st['op'].startswith('r') else '(right)'))
    for s in case['steps']:
        if s['k'] == 'derive':
            rep.count('op:' + s['op'])
        elif s['k'] == 'cols':
            rep.count('op:cols')
        elif s['k'] == 'fail':
            rep.count('failing_read_in_between:' + s['what'])
    d = [s for s in case['steps'] if s['k'] not in ('eval', 'fail')]
    froms = [s['from'] for s in d]
    if len(froms) != len(set(froms)):
        rep.count('siblings')
    if 'ok' in impl_res and impl_res['ok'].get('eager_failed'):
        rep.count('eager_raises(discarded evals)')


def classify(case, impl_res, ans, why):
    return dict(kind=why.split(':')[0], what=why.split(':')[1].strip()[:40],
                ops=sorted({s.get('op', 'cols') for s in case['steps'] if s['k'] not in ('eval', 'fail')})[:3])


def shrink(case):
    st = case['steps']
    # drop a failing read
    for i, s in enumerate(st):
        if s['k'] == 'fail':
            c = dict(case); c['steps'] = st[:i] + st[i + 1:]
            yield c
    # drop an eval
    for i, s in enumerate(st):
        if s['k'] == 'eval' and sum(x['k'] == 'eval' for x in st) > 1:
            c = dict(case); c['steps'] = st[:i] + st[i + 1:]
            yield c
    # drop a leaf derivation (nobody derives from / evaluates it)
    idx = 0
    rid = {}
    for i, s in enumerate(st):
        if s['k'] not in ('eval', 'fail'):
            idx += 1
            rid[i] = idx
    for i, s in enumerate(st):
        if s['k'] in ('eval', 'fail'):
            continue
        me = rid[i]
        used = any((x['k'] in ('eval', 'fail') and x['reader'] == me) or (x['k'] not in ('eval', 'fail') and x['from'] == me) for x in st)
        if not used:
            new = []
            for j, x in enumerate(st):
                if j == i:
                    continue
                x = dict(x)
                key = 'reader' if x['k'] in ('eval', 'fail') else 'from'
                if x[key] > me:
                    x[key] -= 1
                new.append(x)
            c = dict(case); c['steps'] = new
            yield c
    if len(case['parts']) > 1:
        c = dict(case); c['parts'] = [sum(case['parts'])]
        yield c
    if case['backend'] != 'array' and len(case['parts']) == 1:
        c = dict(case); c['backend'] = 'array'
        yield c


def _goes_float(op, arg, argkind):
    """does this scalar operator turn an integer-valued reader into a floating point one?"""
    return op in ('truediv', 'rtruediv') or isinstance(arg, float) or 'float' in (argkind or '')


def scalar_args(op, dtype, rng=None):
    dtype = _pool_dtype(dtype)
    isint = not dtype.startswith('float')
    if op in ('pow',):
        return [0, 1, 2] + ([3] if isint else [])
    if op == 'rpow':
        return [2, 3] if dtype == 'uint8' else ([2] if isint else [])
    if op in ('truediv', 'floordiv'):
        return [2, 4, 0.5, -3] if dtype != 'uint8' else [2, 4, 0.5]
    if op in ('rtruediv', 'rfloordiv'):
        return [6, 1.5] + ([] if dtype == 'uint8' else [-7])
    if dtype == 'uint8':
        return [3, 1, 2.5, 0.1]
    return [3, -2, 2.5, 0, 0.1, 0.2]


EVALKINDS = ['py', 'np', 'py', 'np:int32', 'py:step1', 'np:uint64', 'np:uint8']


def items_for(n, rng, k=3, cbin=False):
    out = [{'slice': [None, None]}, {'int': rng.randrange(-n, n)}]
    for _ in range(k):
        s = rng.randrange(0, n); e = rng.randrange(s + 1, n + 1)
        out.append({'slice': [s if rng.random() < .7 else s - n, e if rng.random() < .7 else (e - n if e < n else None)]})
    if not cbin:
        out.append({'list': sorted(rng.sample(range(n), rng.randrange(1, min(n, 4) + 1)))})
    return out


def gen(tier, rng):
    q = tier == 'quick'
    ops = list(UN) + list(BIN) + ['cols']
    k = 0
    # chains of depth <= D, each prefix re-evaluated after every derivation
    D = 2 if q else 3
    for depth in range(1, D + 1):
        for chain in itertools.product(ops, repeat=depth):
            for rep_ in range(1 if (q or depth == 3) else 2):
                k += 1
                if depth == 3 and k % 4:
                    continue
                # dtype, backend, channel count and file layout walk lists of pairwise coprime lengths (9, 5, 7, 4), so
                # that every combination occurs (k % 6 with k % 3 tied each dtype to ONE backend)
                dtype = (DTYPES + SWAPPED)[k % 9]
                backend = ['flat', 'array', 'npy', 'flat', 'cbin'][k % 5]
                npy_order = 'C'
                if backend == 'cbin' and dtype != 'int16':
                    backend, npy_order = 'npy', 'F'
                elif backend == 'npy' and (k // 5) % 2:
                    npy_order = 'F'
                parts = [[2, 1, 3], [4], [1, 5], [3, 3]][k % 4] if backend == 'flat' else [6]
                nch = [2, 3, 1, 4, 2, 1, 3][k % 7]          # single-channel recordings included
                n = sum(parts)
                steps, ok_chain, cur = [], True, 0
                cur_float = _native(dtype).kind == 'f'
                nch_cur = nch
                for j, op in enumerate(chain):
                    if op == 'cols':
                        sel = [c for c in col_selectors(nch_cur, rng) if c is not None]
                        c = sel[(k + j) % len(sel)]
                        nch_cur = len(np.arange(nch_cur)[_pycols(c, 'py')])
                        if nch_cur == 0:
                            ok_chain = False
                            break
                        steps.append({'k': 'cols', 'from': cur, 'cols': c, 'colkind': ['py', 'np'][(k + j) % 2]})
                    elif op in UN:
                        steps.append({'k': 'derive', 'from': cur, 'op': op})
                    else:
                        # the operand pool follows the CURRENT value type of the reader: float powers with
                        # non-trivial exponents are not bit-reproducible across block sizes in NumPy
                        args = scalar_args(op, 'float64' if cur_float else dtype)
                        if not args:
                            ok_chain = False
                            break
                        arg, argkind = args[(k + j) % len(args)], ARGKINDS[(k // 3 + j) % len(ARGKINDS)]
                        steps.append({'k': 'derive', 'from': cur, 'op': op, 'arg': arg, 'argkind': argkind})
                        cur_float = cur_float or _goes_float(op, arg, argkind)
                    cur += 1
                    # re-evaluate the new reader AND every ancestor after each derivation
                    # every form of row index (whole / int / slice / index list), as Python and as NumPy-typed objects
                    for rdr in range(cur + 1):
                        its = items_for(n, rng, 1, backend == 'cbin')
                        it = its[(k + j + rdr) % len(its)]
                        kind = EVALKINDS[(k // 2 + j + rdr) % len(EVALKINDS)] if backend != 'cbin' else 'py'
                        steps.append({'k': 'eval', 'reader': rdr, 'item': it, 'kind': kind})
                        # the caller overwrites in place some of the blocks it is handed; every ancestor is re-read
                        # after the next derivation, and once more at the end of the chain
                        if (k + 2 * j + rdr) % 4 == 0:
                            steps[-1]['scribble'] = True
                if ok_chain and any(s_.get('scribble') for s_ in steps):
                    for rdr in range(cur + 1):
                        its = items_for(n, rng, 1, backend == 'cbin')
                        steps.append({'k': 'eval', 'reader': rdr, 'item': its[(k + rdr) % 2], 'kind': 'py'})
                if ok_chain:
                    yield dict(p=PID, backend=backend, dtype=dtype, parts=parts, nch=nch, steps=steps, npy_order=npy_order,
                               base=['ids', 'extreme'][(k // 2) % 2], offset=[0, 6, 0, 128][(k // 4) % 4],
                               **({'mode': 'r+'} if backend == 'flat' and (k // 5) % 2 else {}))
    # random derivation trees
    for _ in range(3000 if q else 40000):
        dtype = rng.pick(DTYPES + DTYPES + SWAPPED)
        backend = rng.pick(['flat', 'flat', 'array', 'npy'] + (['cbin'] if dtype == 'int16' else []))
        parts = [rng.randrange(1, 5) for _ in range(rng.randrange(1, 4))] if backend == 'flat' else [rng.randrange(1 if backend != 'cbin' else 2, 9)]
        nch = rng.randrange(1, 5)
        n = sum(parts)
        widths = [nch]
        isf = [_native(dtype).kind == 'f']
        steps = []
        # half of the histories have a caller that post-processes, in place, blocks it is handed
        scribbler = rng.random() < .5
        for _ in range(rng.randrange(2, 7 if q else 9)):
            src = rng.randrange(len(widths))
            op = rng.pick(ops)
            if op == 'cols':
                sel = [c for c in col_selectors(widths[src], rng) if c is not None]
                c = rng.pick(sel)
                w = len(np.arange(widths[src])[_pycols(c, 'py')])
                if w == 0:
                    continue
                steps.append({'k': 'cols', 'from': src, 'cols': c, 'colkind': rng.pick(['py', 'np'])}); widths.append(w); isf.append(isf[src])
            elif op in UN:
                steps.append({'k': 'derive', 'from': src, 'op': op}); widths.append(widths[src]); isf.append(isf[src])
            else:
                args = scalar_args(op, 'float64' if isf[src] else dtype)
                if not args:
                    continue
                arg, argkind = rng.pick(args), rng.pick(ARGKINDS)
                steps.append({'k': 'derive', 'from': src, 'op': op, 'arg': arg, 'argkind': argkind}); widths.append(widths[src])
                isf.append(isf[src] or _goes_float(op, arg, argkind))
            if rng.random() < .25:
                steps.append({'k': 'fail', 'reader': rng.randrange(len(widths)), 'what': rng.pick(['col', 'col', 'row']),
                              'item': rng.pick(items_for(n, rng, 2, backend == 'cbin'))})
            for _ in range(rng.randrange(1, 4)):
                rdr = rng.randrange(len(widths))
                it = rng.pick(items_for(n, rng, 2, backend == 'cbin'))
                ev = {'k': 'eval', 'reader': rdr, 'item': it, 'kind': rng.pick(EVALKINDS) if backend != 'cbin' else 'py'}
                if rng.random() < .3:
                    sel = [c for c in col_selectors(widths[rdr], rng) if c is not None and len(np.arange(widths[rdr])[_pycols(c, 'py')]) > 0]
                    ev['cols'] = rng.pick(sel)
                if scribbler and rng.random() < .35:
                    ev['scribble'] = True
                steps.append(ev)
        if any(s['k'] == 'eval' for s in steps):
            yield dict(p=PID, backend=backend, dtype=dtype, parts=parts, nch=nch, steps=steps,
                       npy_order=rng.pick(['C', 'F']),
                       base=rng.pick(['ids', 'extreme', 'extreme']), offset=rng.pick([0, 0, 10, 64]),
                       **({'mode': 'r+'} if backend == 'flat' and rng.random() < .5 else {}))
