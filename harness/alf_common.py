"""One real EphysAlfCreator.convert() run on a generated (or merged) dataset — shared by C13/C14."""
import hashlib
import numpy as np
from pathlib import Path
from . import common as C
from . import dataset as D
from . import merge_common as M


def _hash_dir(d, skip=None):
    """Listing of a directory: its files with their digests AND, recursively, its sub-directories (`sub/` -> 'dir') with
    their files (`sub/name`), so that anything created below the source counts as an addition. `skip`: the conversion's
    own target directory when it lies inside the source (`src/alf`): the target is an argument of the call, not an
    addition to the source the statement speaks of - everything else below the source is listed."""
    d = Path(d)
    out = {}

    def walk(q, prefix):
        for p in sorted(q.iterdir()):
            if skip is not None and p.resolve() == Path(skip).resolve():
                continue
            if p.is_dir() and not p.is_symlink():
                out[prefix + p.name + '/'] = 'dir'
                walk(p, prefix + p.name + '/')
            elif p.is_file():
                out[prefix + p.name] = hashlib.sha256(p.read_bytes()).hexdigest()
    walk(d, '')
    return out


def _npy(path):
    a = np.load(path)
    return dict(dtype=str(a.dtype), shape=list(a.shape),
                vals=np.where(np.isnan(a), None, a).tolist() if a.dtype.kind == 'f' else a.tolist())


def subset_features(rng, spec):
    """Turn the feature store of a dense spec into one that holds a SUBSET of the spikes (`pc_feature_spike_ids.npy`
    lists the spikes that have a row; a layout the loader and C06 support). Returns False when nothing was changed."""
    ns = len(spec['spike_templates'])
    if spec.get('pc_features') is None or ns < 3:
        return False
    # at least two rows: a feature file with ONE row is read by the loader as a 2-D array (a C04/C06 matter, not the export's)
    keep = sorted(rng.sample(range(ns), rng.randrange(2, ns)))
    spec['pc_features'] = [spec['pc_features'][i] for i in keep]
    spec['pc_feature_spike_ids'] = keep
    return True


def run_export(case):
    from phylib.io.alf import EphysAlfCreator
    from phylib.io.model import load_model
    from phylib.io.merge import Merger
    with C.scratch_dir() as d:
        if case.get('probes'):
            subdirs = []
            for k, spec in enumerate(case['probes']):
                sd = d / M.probe_dir(case.get('dirnames', 'idx'), k)
                D.write_dataset(sd, spec)
                subdirs.append(sd)
            src = d / 'merged'
            mm = Merger(subdirs, src).merge()
            mm.close()
            params = src / 'params.py'
        else:
            src = d / 'src'
            params = D.write_dataset(src, case['spec'])
            if case.get('temp_wh'):
                (src / 'temp_wh.dat').write_bytes(b'\0' * 16)
        # a first load creates spike_clusters.npy / whitening_mat_inv.npy when missing (C04): do it
        # before hashing so that only the export's own effects are observed
        load_model(params).close()
        before = _hash_dir(src)
        m = load_model(params)
        res = {}
        try:
            # per-template channel lists in force when the cluster waveforms were computed (at load time,
            # before the neighbourhood size is changed below)
            chans_w_at_load = [[int(c) for c in m.get_template(t, unwhiten=False).channel_ids]
                               for t in range(int(m.n_templates))]
            if case.get('n_closest'):
                m.n_closest_channels = case['n_closest']
            res['src_model'] = dict(
                spike_times=[float(x) for x in m.spike_times], spike_samples=[int(x) for x in m.spike_samples],
                spike_clusters=[int(x) for x in m.spike_clusters], spike_templates=[int(x) for x in m.spike_templates],
                channel_mapping=[int(x) for x in m.channel_mapping], channel_positions=np.asarray(m.channel_positions).tolist(),
                channel_probes=[int(x) for x in m.channel_probes], n_templates=int(m.n_templates), n_clusters=int(m.n_clusters),
                n_channels=int(m.n_channels),
                feat_rows=None if m.sparse_features is None else int(m.sparse_features.data.shape[0]),
                clusters_channels=[int(x) for x in m.clusters_channels], templates_channels=[int(x) for x in m.templates_channels],
                wmi=np.asarray(m.wmi, dtype=np.float64).tolist(),
                templates=np.asarray(m.sparse_templates.data, dtype=np.float64).tolist(),
                clusters_wfs=np.asarray(m.sparse_clusters.data, dtype=np.float64).tolist(),
                amplitudes=[] if m.amplitudes is None else [float(x) for x in m.amplitudes], has_features=m.sparse_features is not None,
                sample_rate=float(m.sample_rate), n_closest=int(m.n_closest_channels))
            res['src_model']['chans_w'] = chans_w_at_load
            if m.sparse_features is not None:
                dep = m.get_depths()
                res['src_model']['depths'] = None if dep is None else [None if np.isnan(x) else float(x) for x in dep]
            # the target directory: beside the source, or INSIDE it (src/alf, the usual layout of a session folder)
            out = (src / 'alf') if case.get('out_inside') else (d / 'alf')
            # the source directory under several spellings: canonical, through '..', through a symlink
            link = d / 'link_to_src'
            link.symlink_to(src, target_is_directory=True)
            same_dir_refused = True
            for spelling in (src, src / '..' / src.name, link, str(src)):
                try:
                    EphysAlfCreator(m).convert(spelling)
                    same_dir_refused = False
                except IOError:
                    pass
                except Exception:      # anything else means the guard did not stop the conversion
                    same_dir_refused = False
            link.unlink()
            res['same_dir_refused'] = same_dir_refused
            res['src_after_refusal_unchanged'] = _hash_dir(src) == before
            if case.get('reexport'):
                # the output directory already holds an older export whose cluster/template tables are
                # stale (other row counts, other values): the export must replace them
                np.random.seed(case.get('rs', 0))
                m0 = EphysAlfCreator(m).convert(out, label=case.get('label', ''), ampfactor=case.get('factor', 1))
                if m0 is not None:
                    m0.close()
                for p in sorted(out.iterdir()):
                    if p.suffix == '.npy' and p.name.split('.')[0] in ('clusters', 'templates', 'spikes', 'channels'):
                        np.save(p, np.full((3,), 7, dtype=np.load(p).dtype))
            np.random.seed(case.get('rs', 0))
            m2 = EphysAlfCreator(m).convert(out, force=bool(case.get('reexport')), label=case.get('label', ''),
                                            ampfactor=case.get('factor', 1))
            res['returned_model'] = m2 is not None
            if m2 is not None:
                res['ret'] = dict(spike_times=[float(x) for x in m2.spike_times], spike_samples=[int(x) for x in m2.spike_samples],
                                  spike_clusters=[int(x) for x in m2.spike_clusters], spike_templates=[int(x) for x in m2.spike_templates],
                                  channel_mapping=[int(x) for x in m2.channel_mapping],
                                  channel_positions=np.asarray(m2.channel_positions).tolist())
                m2.close()
        finally:
            m.close()
        after = _hash_dir(src, skip=out)
        # (not through _hash_dir: prop_c13 records the calls of _hash_dir as the listings of the SOURCE directory)
        res['out_hashes'] = {p.name: hashlib.sha256(p.read_bytes()).hexdigest() for p in sorted(out.iterdir()) if p.is_file()}
        res['src_changed'] = sorted(k for k in set(before) | set(after) if before.get(k) != after.get(k))
        res['files'] = sorted(p.name for p in out.iterdir())
        arrays = {}
        for p in out.iterdir():
            if p.suffix == '.npy':
                arrays[p.name] = _npy(p)
        res['arrays'] = arrays
        ucsv = [p for p in out.iterdir() if p.name.startswith('clusters.uuids')]
        res['uuids'] = ucsv[0].read_text().split('\n') if ucsv else None
        # fresh reload of the output
        fresh = load_model(out / 'params.py')
        try:
            res['fresh'] = dict(spike_times=[float(x) for x in fresh.spike_times], spike_samples=[int(x) for x in fresh.spike_samples],
                                spike_clusters=[int(x) for x in fresh.spike_clusters], spike_templates=[int(x) for x in fresh.spike_templates],
                                channel_mapping=[int(x) for x in fresh.channel_mapping],
                                channel_positions=np.asarray(fresh.channel_positions).tolist())
        finally:
            fresh.close()
    return res
