"""C01 — reader indexing equals NumPy indexing of the concatenated recording (DESIGN.md §5 C01)."""
import itertools
import json
import math
import os
import sys
from fractions import Fraction
import numpy as np
from . import common as C

PID = 'C01'
PARALLEL = True
BATCH = 400
BUDGET_S = {'quick': 80, 'thorough': 1200}
RULE = ('layouts: every composition of n <= N into parts of length >= 1 (flat files), single-part '
        'npy / in-memory array / cbin (index lists included: the decoder must refuse them or answer as NumPy); channels 1..4; dtypes uint8/int16/int32/float32/float64; header '
        'offsets incl. non-multiples of the row size. Per layout: all ints in [-n,n) (python and numpy '
        'scalars), all slices with bounds in [-n,n] U {None} selecting >= 1 row, strictly increasing '
        'index lists/arrays (all subsets for small n), x column selectors {none, slice, reversed '
        'slice, index list, permutation, 1-element array}. Then random larger layouts. A case = one '
        'layout with a batch of index expressions; non-trivial = layout with >= 2 parts or n >= 3. Sample rates: usual '
        'ones, and the boundary of what the constructors accept (the doubles at and next to 1/1200 Hz, rates whose float '
        'product 600.0*rate sits on a .5 tie, the overflow threshold near 3e305 Hz): a rate outside the domain (RateOK of '
        'Spec/C01b.lean, decided by the driver) is not judged. A single compressed file is opened both as an '
        'mtscomp.Reader object and BY PATH (get_ephys_reader("a.cbin")); a list of several compressed files by path')
ASSUMPTIONS = ['np.memmap / np.load / mtscomp decoding are transport (byte layout not modelled)',
               'oracle for reader[item, cols] is A[item][:, cols] (outer indexing)',
               'reader attributes: the Lean model builds the reader object of the backend from what the harness OBSERVED '
               'of the input (sizes of the files on disk, the .ch metadata, the exact rational value of the float sample '
               'rate) and computes n_samples as the last chunk bound (chunk length int(round(fl(600*rate))), the float product '
               'of Model/C16d.lean, as in C16); duration is compared through float(Fraction), the '
               'correctly rounded value of the single division the real property performs',
               'which sample rates are in the domain is decided by the Lean driver (RateOK: the constructor accepts the rate '
               'and the float product does not overflow), the same criterion as C16 (chunkSizeFl > 0, Fl.InRange)',
               'get_ephys_reader(<path>.cbin) builds mtscomp.Reader(n_threads=cpu_count() // 2): on a machine with one CPU that '
               'is 0 threads and mtscomp raises ZeroDivisionError (environment, not judged: the by-path form is then replaced by '
               'the object form and tallied)']

VAL = {'uint8': (1, 0), 'int16': (1, -30000), 'int32': (3, -100000), 'float32': (.5, -100.), 'float64': (.25, -1000.),
       '>i2': (1, -30000), '>f4': (.5, -100.), '>u4': (3, 100000)}     # non-native byte order (flat files only)



def _is_reader(x):
    """`reader[:, cols]` is itself a reader (the PUBLIC class; no private attribute is consulted, so renaming an
    internal helper of the readers is not an alarm - refactoring C02 R1)"""
    from phylib.io.traces import BaseEphysReader
    return isinstance(x, BaseEphysReader)

def _array(n, nch, dtype):
    a, b = VAL[dtype]
    ids = np.arange(n * nch).reshape((n, nch))
    return (ids * a + b).astype(dtype)


def _ids(out, dtype):
    a, b = VAL[dtype]
    return np.round((np.asarray(out, dtype=np.float64) - b) / a).astype(np.int64).tolist()


def _npdtype(kind, values):
    """dtype of a NumPy index (`np` = int64, `np:<dtype>`); int64 when the values do not fit"""
    dt = np.dtype(kind[3:] if kind.startswith('np:') else 'int64')
    info = np.iinfo(dt)
    return dt if all(info.min <= v <= info.max for v in values) else np.dtype('int64')


def _pyitem(it, kind):
    if 'int' in it:
        return _npdtype(kind, [it['int']]).type(it['int']) if kind.startswith('np') else int(it['int'])
    if 'list' in it:
        return np.array(it['list'], dtype=_npdtype(kind, it['list'])) if kind.startswith('np') else list(it['list'])
    s, e = it['slice']
    if kind.startswith('np'):
        # slice bounds of NumPy integer type (e.g. a uint64 spike sample +- a margin)
        s, e = [None if v is None else _npdtype(kind, [v]).type(v) for v in (s, e)]
    if kind == 'py:step1':
        return slice(s, e, 1)         # the unit step written out
    return slice(s, e)


def _pycols(c, kind):
    if c is None:
        return None
    if 'idx' in c:
        return np.array(c['idx']) if kind.startswith('np') else list(c['idx'])
    if 'mask' in c:
        return np.array(c['mask'], dtype=bool) if kind.startswith('np') else [bool(b) for b in c['mask']]
    s, e, st = c['slice']
    return slice(s, e, st)


def _fname(scheme, i):
    """file names whose lexicographic order is / is not the order in which they are given"""
    if scheme == 'rev':
        return 'f%02d.bin' % (90 - i)
    if scheme == 'nat':
        return 'rec_t%d.bin' % (8 + i)        # rec_t8, rec_t9, rec_t10, ...: sorted order differs
    return 'f%d.bin' % i


NPKINDS = ['np', 'np:uint64', 'np:uint32', 'np:int32', 'np:uint8', 'np:intp', 'np:uint16']
# plain Python index objects; `py:step1` writes the unit step of a slice out, `py:tuple1` wraps a row index that has no
# channel selector into a one-element tuple
PYKINDS = ['py', 'py', 'py:step1', 'py', 'py:tuple1']


def _entry(e):
    """an index expression of a case: [item, cols, kind] or [item, cols, kind, [c1, c2, ...]] - the latter is
    evaluated on the derived reader reader[:, c1][:, c2]..."""
    return e[0], e[1], e[2], (e[3] if len(e) > 3 else [])


def impl(case):
    from phylib.io.traces import get_ephys_reader
    parts, nch, dtype, backend = case['parts'], case['nch'], case['dtype'], case['backend']
    n = sum(parts)
    A = _array(n, nch, dtype)
    sr = case.get('sr', 100.)
    src = {}
    with C.scratch_dir() as d:
        rd = None
        if backend == 'flat':
            paths, off = [], 0
            for i, l in enumerate(parts):
                p = d / _fname(case.get('names', 'idx'), i)
                with open(p, 'wb') as f:
                    f.write(b'\xff' * case.get('offset', 0))
                    f.write(A[off:off + l].tobytes())
                off += l
                paths.append(str(p) if case.get('pathkind') == 'str' else p)
            src = dict(fsizes=[os.stat(str(p)).st_size for p in paths])
            r = get_ephys_reader(paths if len(paths) > 1 or case.get('aslist') else paths[0],
                                 sample_rate=sr, dtype=np.dtype(dtype), n_channels=nch,
                                 offset=case.get('offset', 0))
        elif backend == 'npy':
            # the same recording saved from a C-ordered or a Fortran-ordered array
            np.save(d / 'a.npy', np.asfortranarray(A) if case.get('npy_order') == 'F' else A)
            r = get_ephys_reader(d / 'a.npy', sample_rate=sr)
        elif backend == 'array':
            r = get_ephys_reader(A, sample_rate=sr)
        elif backend == 'cbin' and len(parts) > 1:
            # several compressed files given as a list of paths (one .cbin/.ch pair per part)
            import mtscomp
            paths, off = [], 0
            for i, l in enumerate(parts):
                A[off:off + l].tofile(d / ('p%d.bin' % i))
                mtscomp.compress(d / ('p%d.bin' % i), d / ('p%d.cbin' % i), d / ('p%d.ch' % i), sample_rate=sr,
                                 n_channels=nch, dtype=np.dtype(dtype), chunk_duration=case.get('cd', 1.), n_threads=1,
                                 check_after_compress=False, quiet=True)
                off += l
                paths.append(d / ('p%d.cbin' % i))
            src = dict(meta=[json.loads((d / ('p%d.ch' % i)).read_text()) for i in range(len(parts))])
            r = get_ephys_reader(paths)
            rd = r.reader
        elif backend == 'cbin':
            import mtscomp
            A.tofile(d / 'a.bin')
            mtscomp.compress(d / 'a.bin', d / 'a.cbin', d / 'a.ch', sample_rate=sr, n_channels=nch,
                             dtype=np.dtype(dtype), chunk_duration=case.get('cd', 1.), n_threads=1,
                             check_after_compress=False, quiet=True)
            src = dict(meta=[json.loads((d / 'a.ch').read_text())])
            bypath = case.get('bypath')
            if bypath:
                import multiprocessing as mp
                if mp.cpu_count() // 2 < 1:
                    bypath = None           # one CPU: n_threads = 0 (environment; see ASSUMPTIONS)
                    src['bypath'] = 'skipped: one CPU'
            if bypath:
                # the compressed file given BY PATH: `_get_ephys_constructor` opens the mtscomp reader itself
                r = get_ephys_reader(str(d / 'a.cbin') if bypath == 'str' else d / 'a.cbin')
                rd = r.reader
                src['bypath'] = bypath
            else:
                rd = mtscomp.Reader(n_threads=1)
                rd.open(d / 'a.cbin', d / 'a.ch')
                r = get_ephys_reader(rd)
        attrs = dict(shape=[int(x) for x in r.shape], n_samples=int(r.n_samples),
                     n_channels=int(r.n_channels), dtype=str(np.dtype(r.dtype)),
                     duration=float(r.duration), part_bounds=[int(x) for x in r.part_bounds],
                     chunk_bounds=[int(x) for x in r.chunk_bounds])      # chunk_bounds: tallied only (C16 judges them)
        res = []
        for it, c, kind, pre in map(_entry, case['items']):
            item, cols = _pyitem(it, kind), _pycols(c, kind)
            if kind == 'py:tuple1' and cols is None:
                item = (item,)            # reader[(i,)]: a one-element index tuple
            keep = (repr(item), repr(cols))
            try:
                r0 = r
                for c1 in pre:
                    # successive deferred channel selections: each returns a derived reader
                    r = r[:, _pycols(c1, kind)]
                out = r[item] if cols is None else r[item, cols]
                if _is_reader(out):
                    # reader[:, cols] is a derived reader (C02); observe it through indexing
                    out = out[:]
                rec = dict(ids=_ids(out, dtype), dtype=str(out.dtype), ndim=int(np.ndim(out)))
                # the caller's index objects are the caller's: unchanged by the call, and the same
                # objects give the same answer when used again
                rec['args_changed'] = (repr(item), repr(cols)) != keep
                # what the caller does with the returned block is the caller's business: overwriting it
                # must not change what the reader returns afterwards
                try:
                    if isinstance(out, np.ndarray) and out.flags.writeable and out.size:
                        out[...] = 1
                except Exception:  # noqa
                    pass
                out2 = r[item] if cols is None else r[item, cols]
                if _is_reader(out2):
                    out2 = out2[:]
                rec['second_differs'] = _ids(out2, dtype) != rec['ids']
                res.append(rec)
            except Exception as e:  # noqa
                res.append(dict(raised=type(e).__name__, msg=str(e)[:200]))
            finally:
                r = r0
        del r
        if rd is not None:
            rd.close()
        rewritten = None
        if backend in ('flat', 'npy') and case.get('rewrite'):
            # the SAME paths now hold another recording (other lengths, other cells): a reader opened afterwards, in
            # the same process and with the same arguments, shows the files as they are now
            parts2 = [max(1, l + dl) for l, dl in zip(parts, case['rewrite'])]
            n2 = sum(parts2)
            A2 = _array(n2, nch, dtype)[::-1].copy()
            if backend == 'flat':
                off = 0
                for p, l in zip(paths, parts2):
                    with open(str(p), 'wb') as f:
                        f.write(b'\xee' * case.get('offset', 0))
                        f.write(A2[off:off + l].tobytes())
                    off += l
                r2 = get_ephys_reader(paths if len(paths) > 1 or case.get('aslist') else paths[0],
                                      sample_rate=sr, dtype=np.dtype(dtype), n_channels=nch,
                                      offset=case.get('offset', 0))
            else:
                np.save(d / 'a.npy', A2)
                r2 = get_ephys_reader(d / 'a.npy', sample_rate=sr)
            try:
                whole = r2[:]
                rewritten = dict(n_samples=int(r2.n_samples), expected=n2,
                                 same=bool(whole.shape == A2.shape and np.array_equal(whole, A2)))
            except Exception as e:  # noqa
                rewritten = dict(n_samples=int(r2.n_samples), expected=n2, same=False, raised=type(e).__name__)
            del r2
    if 'meta' in src:
        src['meta'] = [dict(n_channels=int(m['n_channels']), dtype=str(m['dtype']), sample_rate=m['sample_rate'],
                            chunk_bounds=[int(x) for x in m['chunk_bounds']]) for m in src['meta']]
    return dict(attrs=attrs, res=res, src=src, rewritten=rewritten)


def lean_cols(c):
    """a boolean channel mask is sent to the model as the list of selected channels"""
    if c is not None and 'mask' in c:
        return {'idx': [i for i, b in enumerate(c['mask']) if b]}
    return c


def _rat(x):
    f = Fraction(x)
    return [f.numerator, f.denominator]


def model_query(case, impl_res):
    """the recording as the harness observed it on disk (file sizes, .ch metadata), the exact value of the float
    sample rate, and the index expressions; the Lean driver builds the reader object of the backend from it"""
    parts, nch, dtype, backend = case['parts'], case['nch'], case['dtype'], case['backend']
    sr = case.get('sr', 100.)
    src = (impl_res.get('ok') or {}).get('src') or {}
    q = dict(p=PID, op='reader', backend=backend, parts=parts, nch=nch, dtype=dtype, rate=_rat(sr),
             items=[[it, lean_cols(c)] + ([[lean_cols(c1) for c1 in pre]] if pre else [])
                    for it, c, kind, pre in map(_entry, case['items'])])
    if backend == 'flat':
        isz = np.dtype(dtype).itemsize
        q.update(offset=case.get('offset', 0), itemsize=isz,
                 fsizes=src.get('fsizes') or [case.get('offset', 0) + l * nch * isz for l in parts])
    elif backend == 'cbin':
        meta = src.get('meta')
        if meta:
            # what MtscompEphysReader reads: the metadata of the FIRST file decides rate / dtype / channel count
            q.update(tables=[m['chunk_bounds'] for m in meta], rate=_rat(meta[0]['sample_rate']),
                     dtype=meta[0]['dtype'], nch=meta[0]['n_channels'])
        else:
            q.update(tables=[[0, l] for l in parts])
    return q


def oracle(case):
    """the property statement: NumPy on the concatenated array"""
    n = sum(case['parts'])
    ids = np.arange(n * case['nch']).reshape((n, case['nch']))
    out = []
    for it, c, kind, pre in map(_entry, case['items']):
        item, cols = _pyitem(it, 'py'), _pycols(c, 'py')
        B = ids
        for c1 in pre:
            B = B[:, _pycols(c1, 'py')]      # A[:, c1][:, c2]... then the rows, then the final selector
        rows = B[item]
        if rows.ndim == 1:
            rows = rows[np.newaxis, :]
        if cols is not None:
            rows = rows[:, cols]
        out.append(rows.tolist())
    return out


def _attr_diff(a, x):
    """real attributes `a` vs attributes from the driver (duration: exact rational -> correctly rounded float)"""
    if x is None:
        return 'no reader'
    for k in ('shape', 'n_samples', 'n_channels'):
        if a[k] != x[k]:
            return k
    if np.dtype(a['dtype']) != np.dtype(x['dtype']):
        return 'dtype'
    d = x['duration']
    if d is None or a['duration'] != float(Fraction(*d) if isinstance(d, list) else Fraction(d)):
        return 'duration'
    return None


def _multi_cbin(case):
    return case['backend'] == 'cbin' and len(case['parts']) > 1


def _multi_cbin_verdict(case, ok, m, exp):
    """A recording given as a LIST of several compressed files.  -> (observed, message) or None when the reader is that
    of the concatenation.  `observed`:
    * 'first_file_only' - the open known finding, and nothing else: the reader is EXACTLY the reader of the first file
      alone (the Lean model of the constructor keeps the first file, as the code does): its attributes and part bounds
      are the model's, every index expression is answered as the model answers it (same rows, or an exception where
      the model has one), and that differs from the concatenation;
    * 'other' - anything else that differs from the concatenation: rows inside the first file that are not NumPy's, an
      exception on an index the first file alone answers, other attributes, ..."""
    a, sa, ma = ok['attrs'], m['spec_attrs'], m['attrs']
    dev = []          # deviations from the concatenation (the property)
    unlike = []       # differences from the reader of the first file alone (the model)
    why = _attr_diff(a, sa)
    if why:
        dev.append('reader %s differs from the concatenated array: %s (concatenation: %s)' % (why, a, sa))
    why = _attr_diff(a, ma) or (None if a['part_bounds'] == ma['part_bounds'] else 'part_bounds')
    if why:
        unlike.append('reader %s is not that of the first file alone: %s (first file: %s)' % (why, a, ma))
    for k, (r, e, mm) in enumerate(zip(ok['res'], exp, m['res'])):
        it = case['items'][k][0]
        if mm['model'] == 'refused':
            # an index list on compressed files: a refusal by any exception is fine, an ANSWER must be NumPy's
            if 'raised' not in r and r['ids'] != e:
                msg = 'item %d %s: an index list was answered, with rows that differ from NumPy indexing of the concatenation' % (k, it)
                dev.append(msg); unlike.append(msg)
            continue
        good = 'raised' not in r and r['ids'] == e
        if good and (np.dtype(r['dtype']) != np.dtype(case['dtype']).newbyteorder('=') or r['ndim'] != 2
                     or r.get('args_changed') or r.get('second_differs')):
            msg = 'item %d %s: dtype/ndim %s/%s, index objects changed: %s, second answer differs: %s' % (
                k, it, r['dtype'], r['ndim'], r.get('args_changed'), r.get('second_differs'))
            dev.append(msg); unlike.append(msg)
            continue
        like = ('raised' in r) if mm['model'] is None else ('raised' not in r and r['ids'] == mm['model'])
        if not good:
            dev.append('item %d %s: %s; NumPy on the concatenation: %s' % (
                k, it, 'raised %s (%s)' % (r['raised'], r['msg']) if 'raised' in r else 'rows %s' % r['ids'], e))
        if not like:
            unlike.append('item %d %s: %s; the first file alone gives %s; NumPy on the concatenation: %s' % (
                k, it, 'raised %s (%s)' % (r['raised'], r['msg']) if 'raised' in r else 'rows %s' % r['ids'],
                'an exception' if mm['model'] is None else mm['model'], e))
    if not dev:
        return None
    if not unlike:
        return 'first_file_only', ('several compressed files: the reader is that of the FIRST file alone (known finding); '
                                   + dev[0])[:600]
    return 'other', ('several compressed files: beyond "only the first file is read": ' + unlike[0])[:900]


def judge(case, impl_res, ans):
    if 'err' in ans:
        return 'MACHINERY: driver error %s' % ans['err']
    m = ans['ok']
    if case['backend'] != 'cbin' and m.get('rate_ok') is False:
        # a sample rate outside the domain (RateOK, Spec/C01b.lean: the constructor's `assert chunk_size > 0` on the
        # float product fails, or the float product overflows): outside the property's quantifier whatever the real
        # code does - the same criterion as the C16 check (tallied)
        return None
    if 'raised' in impl_res:
        return 'SPEC: real code raised %s (%s) at %s while opening an in-domain recording' % (
            impl_res['raised'], impl_res['msg'], impl_res['where'])
    ok = impl_res['ok']
    exp = oracle(case)
    a = ok['attrs']
    sa, ma = m['spec_attrs'], m['attrs']
    multi_cbin = _multi_cbin(case)
    for mt, l in zip((ok.get('src') or {}).get('meta') or [], case['parts']):
        # the decoder contract the theorems assume (SrcOK): the metadata mtscomp wrote describe what was compressed
        if mt['n_channels'] != case['nch'] or np.dtype(mt['dtype']) != np.dtype(case['dtype']) or \
                mt['chunk_bounds'][-1] != l or mt['sample_rate'] != case.get('sr', 100.):
            return 'MACHINERY: mtscomp metadata %s do not describe the compressed part (%d rows)' % (mt, l)
    for k, (e, mm) in enumerate(zip(exp, m['res'])):
        if mm['spec'] != e:
            return 'MACHINERY: Lean spec differs from NumPy oracle at item %d' % k
    if ma is None:
        return 'MACHINERY: the Lean constructor refuses a recording inside SrcOK (contradicts reader_attrs_eq_concat)'
    if multi_cbin:
        v = _multi_cbin_verdict(case, ok, m, exp)
        return None if v is None else 'SPEC: ' + v[1]
    rw = ok.get('rewritten')
    if rw and (rw['n_samples'] != rw['expected'] or not rw['same']):
        return ('SPEC: after the files were replaced (same paths) a newly opened reader does not show the new '
                'recording: %s' % rw)
    why = _attr_diff(a, sa)
    if why:
        return ('SPEC: reader %s differs from the concatenated array: %s (concatenation: %s)' % (why, a, sa))
    if _attr_diff(a, ma):
        # the real attributes are those of the concatenation, the model's are not: contradicts reader_attrs_eq_concat
        return 'MACHINERY: Lean reader model attributes %s differ from the concatenated array %s' % (ma, sa)
    if a['part_bounds'] != ma['part_bounds']:
        return 'CORR: part_bounds differ from the model (%s vs %s)' % (a['part_bounds'], ma and ma['part_bounds'])
    for k, (r, e, mm) in enumerate(zip(ok['res'], exp, m['res'])):
        if mm['model'] == 'refused':
            # compressed file, index list: outside the quantifier ("except on compressed files whose decoder does
            # not offer it") - a refusal by any exception is fine, an ANSWER must be NumPy's
            if case['backend'] != 'cbin' or 'list' not in case['items'][k][0]:
                return 'MACHINERY: model refuses item %d on backend %s' % (k, case['backend'])
            if 'raised' not in r and r['ids'] != e:
                return ('SPEC: item %d: an index list on a compressed file was answered, with rows that differ from '
                        'NumPy indexing of the concatenation' % k)
            continue
        if mm['model'] != e:
            return 'MACHINERY: Lean model differs from its spec at item %d (contradicts the theorem)' % k
        if 'raised' in r:
            return 'SPEC: item %d: real code raised %s (%s) on an in-domain index' % (k, r['raised'], r['msg'])
        if r['ids'] != e:
            return 'SPEC: item %d: rows/columns differ from NumPy indexing of the concatenation' % k
        # rows come back in native byte order (as NumPy's concatenate does), with the stored kind and size
        if np.dtype(r['dtype']) != np.dtype(case['dtype']).newbyteorder('=') or r['ndim'] != 2:
            return 'SPEC: item %d: dtype/ndim %s/%s' % (k, r['dtype'], r['ndim'])
        if r.get('args_changed'):
            return 'SPEC: item %d: indexing modified the index objects passed by the caller (NumPy indexing does not)' % k
        if r.get('second_differs'):
            return 'SPEC: item %d: the same index expression gave different rows the second time (after the caller overwrote the first result)' % k
    return None


def nontrivial(case):
    return len(case['parts']) >= 2 or sum(case['parts']) >= 3


def tally(rep, case, impl_res, ans):
    rep.count('backend:' + case['backend'] + ('(F-ordered)' if case['backend'] == 'npy' and case.get('npy_order') == 'F' else ''))
    rep.count('dtype:' + case['dtype'])
    if case.get('rewrite') and case['backend'] in ('flat', 'npy'):
        rep.count('same_paths_rewritten_and_reopened')
    rep.count('parts:%d' % min(len(case['parts']), 6))
    rep.count('index_expressions', len(case['items']))
    for it, c, kind, pre in map(_entry, case['items']):
        if pre:
            rep.count('derived_reader:%d deferred selection(s) then %s' % (len(pre), 'rows' if c is None else 'rows+cols'))
        rep.count('item:' + next(iter(it)))
        rep.count('cols:' + ('none' if c is None else next(iter(c))))
        rep.count('index_type:' + kind)
    if case['backend'] == 'cbin' and 'ok' in impl_res and 'ok' in ans:
        for r, mm in zip(impl_res['ok']['res'], ans['ok']['res']):
            if mm['model'] == 'refused':
                rep.count('cbin_index_list:' + (r['raised'] if 'raised' in r else 'answered'))
    if case['backend'] == 'flat':
        rep.count('file_names:%s/%s' % (case.get('names', 'idx'), case.get('pathkind', 'path')))
    if case['backend'] == 'cbin':
        bp = ((impl_res.get('ok') or {}).get('src') or {}).get('bypath')
        rep.count('cbin_opened:' + ('list of paths' if _multi_cbin(case) else 'by path (%s)' % bp if bp else 'mtscomp.Reader object'))
    elif 'ok' in ans:
        m = ans['ok']
        real = 'accepted' if 'ok' in impl_res else 'raised %s' % impl_res['raised']
        if m.get('rate_ok') is False:
            rep.count('sample_rate outside the domain (not judged): real constructor %s' % real)
        else:
            rep.count('sample_rate in the domain: chunk length from the float product %s the exact one' % (
                '==' if m.get('cs_fl') == m.get('cs_exact') else '!='))
            if 'ok' in impl_res and m.get('attrs'):
                # never a verdict here (C16 judges the chunk bounds): how often the reader's list is the model's
                rep.count('chunk_bounds %s the model' % (
                    'as in' if impl_res['ok']['attrs'].get('chunk_bounds') == m['attrs'].get('chunk_bounds') else 'DIFFER from'))
    rep.extra['index_expressions_total'] = rep.hist.get('index_expressions', 0)


def classify(case, impl_res, ans, why):
    it, c, kind, pre = _entry(case['items'][0]) if case['items'] else ({}, None, '', [])
    raised = None
    if 'ok' in impl_res and impl_res['ok']['res'] and 'raised' in impl_res['ok']['res'][0]:
        raised = impl_res['ok']['res'][0]['raised']
    if _multi_cbin(case):
        # WHAT is observed on a list of several compressed files (the open known finding is `first_file_only`: the reader
        # is exactly the reader of the first file; a crash or wrong rows inside the first file is `other`)
        observed = 'other'
        if 'raised' in impl_res:
            observed = 'raised_on_open'
        elif 'ok' in impl_res and 'ok' in ans and ans['ok'].get('attrs') is not None and why.startswith('SPEC: several'):
            v = _multi_cbin_verdict(case, impl_res['ok'], ans['ok'], oracle(case))
            observed = v[0] if v else 'none'
        return dict(kind=why.split(':')[0], site='multi_cbin', observed=observed,
                    raised=impl_res.get('raised'))
    return dict(kind=why.split(':')[0], item=next(iter(it), None), item_kind=kind,
                cols=None if c is None else next(iter(c)), raised=raised or impl_res.get('raised'),
                multi=len(it.get('list', [])) >= 2)


def shrink(case):
    """candidates of `_shrink` on which NumPy itself accepts the index expressions (dropping a deferred selection
    changes the width the following selectors refer to)"""
    if _multi_cbin(case):
        # a list of several compressed files: the case is judged as a whole (is the reader exactly that of the first
        # file - the known finding - or is there anything else?); dropping index expressions could turn "something
        # else" into the known finding
        return
    for c in _shrink(case):
        try:
            oracle(c)
        except Exception:  # noqa
            continue
        yield c


def _shrink(case):
    items = case['items']
    if len(items) > 1:
        for i in range(len(items)):
            c = dict(case); c['items'] = [items[i]]
            yield c
        return
    parts = case['parts']
    n = sum(parts)
    it, cs, kind, pre = _entry(items[0])
    if pre:
        # fewer deferred selections first
        for i in range(len(pre)):
            c = dict(case); c['items'] = [[it, cs, kind, pre[:i] + pre[i + 1:]]]
            yield c

    def ok_item(it, n):
        if 'int' in it:
            return -n <= it['int'] < n
        if 'list' in it:
            return it['list'] and all(0 <= x < n for x in it['list'])
        s, e = it['slice']
        return len(range(n)[slice(s, e)]) > 0 and all(v is None or -n <= v <= n for v in (s, e))
    if len(parts) > 1:
        for i in range(len(parts) - 1):
            c = dict(case); c['parts'] = parts[:i] + [parts[i] + parts[i + 1]] + parts[i + 2:]
            yield c
    for i in range(len(parts)):
        if parts[i] > 1:
            p2 = parts[:i] + [parts[i] - 1] + parts[i + 1:]
            if ok_item(it, n - 1):
                c = dict(case); c['parts'] = p2
                yield c
    if cs is not None:
        c = dict(case); c['items'] = [[it, None, kind, pre]]
        yield c
    if 'list' in it and len(it['list']) > 1:
        for i in range(len(it['list'])):
            c = dict(case); c['items'] = [[dict(list=it['list'][:i] + it['list'][i + 1:]), cs, kind, pre]]
            yield c
    if case['dtype'] != 'int16':
        c = dict(case); c['dtype'] = 'int16'
        yield c
    if case.get('offset'):
        c = dict(case); c['offset'] = 0
        yield c


def compositions(n):
    if n == 0:
        yield []
        return
    for first in range(1, n + 1):
        for rest in compositions(n - first):
            yield [first] + rest


def all_items(n, small):
    items = []
    for i in range(-n, n):
        items.append(dict(int=i))
    vals = [None] + list(range(-n, n + 1))
    for s in vals:
        for e in vals:
            if len(range(n)[slice(s, e)]) > 0:
                items.append({'slice': [s, e]})
    if small:
        for k in range(1, n + 1):
            for sub in itertools.combinations(range(n), k):
                items.append(dict(list=list(sub)))
    return items


def col_selectors(nch, rng):
    sel = [None, {'slice': [None, None, -1]}, {'idx': [nch - 1]}, {'idx': list(range(nch))[::-1]}]
    if nch >= 2:
        sel += [{'slice': [1, None, 1]}, {'slice': [0, nch - 1, 1]}, {'idx': [0, nch - 1]}]
        perm = list(range(nch)); rng.shuffle(perm)
        sel.append({'idx': perm})
    if nch >= 3:
        sel += [{'slice': [None, None, 2]}, {'idx': [2, 0]}, {'idx': [-1, 1]}]
    mask = [bool(rng.randrange(2)) for _ in range(nch)]
    mask[rng.randrange(nch)] = True
    sel.append({'mask': mask})
    # selections that REPEAT channels (the result is wider than its source) and the identity selection 0..n-1
    sel.append({'idx': list(range(nch)) + [rng.randrange(nch) for _ in range(rng.randrange(1, 3))]})
    sel.append({'idx': list(range(nch))})
    if nch >= 2:
        sel.append({'idx': list(range(rng.randrange(1, nch)))})        # a prefix 0..k-1
    return sel


def _width(nch, c):
    return len(np.arange(nch)[_pycols(c, 'py')]) if c is not None else nch


def chained(nch, items, rng, k):
    """index expressions on derived readers: r1 = reader[:, c1]; r1[rows, c2]   and   reader[:, c1][:, c2][rows]
    with selections that do not commute (permutations, reversed slices, index lists and masks of different widths)"""
    out = []
    for j in range(k):
        c1 = rng.pick([c for c in col_selectors(nch, rng) if c is not None])
        w1 = _width(nch, c1)
        c2 = rng.pick([c for c in col_selectors(w1, rng) if c is not None])
        it = rng.pick(items)
        kind = rng.pick(['py', 'py', 'np'])
        out.append([it, c2, kind, [c1]])
        out.append([it, None, kind, [c1, c2]])
        if j % 3 == 0:
            c3 = rng.pick([c for c in col_selectors(_width(w1, c2), rng) if c is not None])
            out.append([it, c3, kind, [c1, c2]])
    return out


def boundary_rates():
    """sample rates at the boundary of what the constructors accept, as (rate, expected in the domain?) is NOT known
    here - the driver decides; these are only the interesting doubles: at / next to 1/1200 Hz (float product 0.5: the tie
    rounds to 0), rates (k + 1/2)/600 whose float product sits on or next to a tie, the overflow threshold of 600.0*rate"""
    x = 1 / 1200
    up, dn = math.nextafter(x, 1), math.nextafter(x, 0)
    big = sys.float_info.max / 600.
    out = [x, up, dn, 0.0225, big, math.nextafter(big, math.inf), 3e305, 2.9e305, math.nextafter(up, 1), 0.00084, 0.0008,
           0.0025, 1e-310]
    for k in (1, 2, 3, 6, 13, 22, 37):
        t = (k + .5) / 600.
        out += [t, math.nextafter(t, 0), math.nextafter(t, 1)]
    return out


def gen(tier, rng):
    q = tier == 'quick'
    brates = boundary_rates()
    bi = 0         # the boundary rates are walked in order
    N = 5 if q else 7
    dts = [d for d in VAL if not d.startswith('>')]
    k = 0
    for n in range(1, N + 1):
        items = all_items(n, n <= 6)
        for parts in compositions(n):
            for rep_ in range(1 if q else 2):
                k += 1
                nch = 1 + (k % 4)
                dtype = dts[k % 5]
                isz = np.dtype(dtype).itemsize
                sels = col_selectors(nch, rng)
                its = []
                for j, it in enumerate(items):
                    kind = NPKINDS[(j + k) % len(NPKINDS)] if (j + k) % 3 == 0 else PYKINDS[(j + k) % len(PYKINDS)]
                    its.append([it, sels[(j + k) % len(sels)], kind])
                    if (j + k) % 5 == 0:
                        its.append([it, None, kind])
                its += chained(nch, items, rng, 2 if nch == 1 else 6)
                yield dict(p=PID, backend='flat', parts=parts, nch=nch, dtype=dtype,
                           offset=[0, 7, isz * nch * 2, 1][k % 4], sr=[100., 1000., 2.5][k % 3], items=its,
                           aslist=bool(k % 2), names=['idx', 'rev', 'nat'][k % 3],
                           pathkind=['path', 'str'][(k // 3) % 2],
                           rewrite=[[1, 0, 2][(k + i) % 3] for i in range(len(parts))] if k % 3 == 0 else None)
        # single-part backends
        for backend in ('npy', 'array', 'cbin'):
            k += 1
            nch = 1 + (k % 4)
            dtype = 'int16' if backend == 'cbin' else dts[k % 5]
            sels = col_selectors(nch, rng)
            its = []
            for j, it in enumerate(items):
                # compressed files: index lists too (the decoder has to refuse them or answer as NumPy does)
                kind = NPKINDS[(j + k) % len(NPKINDS)] if (j + k) % 3 == 0 else PYKINDS[(j + k) % len(PYKINDS)]
                its.append([it, sels[(j + k) % len(sels)], kind])
            its += chained(nch, [it for it in items if backend != 'cbin' or 'list' not in it], rng, 4)
            c = dict(p=PID, backend=backend, parts=[n], nch=nch, dtype=dtype, sr=[10., 100., 1 / 256][k % 3 if backend != 'cbin' else k % 2],
                     cd=[1., .2][k % 2], items=its, npy_order='C')
            yield c
            if backend == 'npy' and nch >= 2:
                yield dict(c, npy_order='F', rewrite=[2])
            if backend == 'cbin':
                # the same compressed file opened BY PATH (Path / str): `_get_ephys_constructor` builds the mtscomp reader
                yield dict(c, bypath=['path', 'str'][n % 2], items=its[n % 2::2])
            else:
                # the same layout at a rate on the boundary of the constructor's domain
                yield dict(c, sr=brates[bi % len(brates)], items=its[::3], rewrite=None)
                bi += 1
        # flat files at boundary rates (two parts when possible)
        for j in range(2):
            k += 1
            sr = brates[bi % len(brates)]
            bi += 1
            parts = [n] if n == 1 else [1 + (k % (n - 1)), n - 1 - (k % (n - 1))]
            nch = 1 + (k % 3)
            yield dict(p=PID, backend='flat', parts=parts, nch=nch, dtype=dts[k % 5], offset=[0, 3][k % 2], sr=sr,
                       items=[[it, None, 'py'] for it in items[::2]], aslist=True)
    # several compressed files (the reader only takes the first one: open known finding)
    for parts in ([4, 6], [3, 2, 5]):
        p0, n = parts[0], sum(parts)
        its = [[{'slice': [None, None]}, None, 'py'], [{'int': n - 1}, None, 'py'], [{'slice': [p0 - 1, p0 + 1]}, None, 'py'],
               # index expressions INSIDE the first file: they have to be NumPy's rows whatever happens to the other files
               [{'int': 0}, None, 'py'], [{'int': p0 - 1}, {'idx': [1, 0]}, 'np'], [{'slice': [0, p0]}, None, 'py'],
               [{'slice': [1, p0 - 1]}, {'slice': [None, None, -1]}, 'py:step1'], [{'slice': [None, p0 - 1]}, None, 'np:uint64'],
               [{'int': 1}, None, 'py', [{'idx': [1]}]], [{'int': -1}, None, 'py'], [{'slice': [-2, None]}, None, 'py'],
               [{'list': [0, 1]}, None, 'py'], [{'list': [p0 - 1, p0]}, None, 'np']]
        yield dict(p=PID, backend='cbin', parts=parts, nch=2, dtype='int16', sr=100., cd=.02, items=its)
    # random larger layouts
    for _ in range(120 if q else 2500):
        nparts = rng.randrange(1, 7)
        if rng.random() < .25:
            nparts = rng.randrange(9, 24)          # recordings split into many files (index lists touching a few of them)
        parts = [rng.randrange(1, 60 if nparts < 9 else 8) for _ in range(nparts)]
        n = sum(parts)
        nch = rng.randrange(1, 5)
        dtype = rng.pick(['int16', 'int32', 'float32', 'float64', '>i2', '>f4', '>u4'])
        sels = col_selectors(nch, rng)
        b = [0]
        for l in parts:
            b.append(b[-1] + l)
        its = []
        for _ in range(25):
            t = rng.randrange(3)
            if t == 0:
                it = dict(int=rng.pick([rng.randrange(-n, n), rng.pick(b[:-1]), rng.pick(b[1:]) - 1, -1, -n]))
            elif t == 1:
                while True:
                    s = rng.pick([None, rng.randrange(-n, n + 1), rng.pick(b), rng.pick(b) - n])
                    e = rng.pick([None, rng.randrange(-n, n + 1), rng.pick(b), rng.pick(b) - n])
                    if all(v is None or -n <= v <= n for v in (s, e)) and len(range(n)[slice(s, e)]) > 0:
                        break
                it = {'slice': [s, e]}
            else:
                cand = set(rng.sample(range(n), min(n, rng.randrange(1, 12))))
                if nparts >= 9 and rng.random() < .6:
                    # a few rows taken from two or three of the many files, one of them a late one
                    ks = sorted(rng.sample(range(nparts), rng.randrange(2, 4)) + [rng.randrange(8, nparts)])
                    cand = {rng.randrange(b[k], b[k + 1]) for k in ks}
                cand |= {x for x in (rng.pick(b[:-1]), rng.pick(b[1:]) - 1) if 0 <= x < n}
                it = dict(list=sorted(cand))
            its.append([it, rng.pick(sels), rng.pick(PYKINDS + NPKINDS)])
        its += chained(nch, [e[0] for e in its], rng, 3)
        # sample rates: usual ones (one chunk) and slow ones whose 600 s chunk is 21 / 37.5 / 112.5 / 9.375 samples, so
        # that n_samples = chunk_bounds[-1] is the end of a real chunk list
        yield dict(p=PID, backend='flat', parts=parts, nch=nch, dtype=dtype, offset=rng.pick([0, 0, 5, 128]),
                   sr=rng.pick([100., 30000., 0.035, 1 / 16, 3 / 16, 1 / 64, 0.0225, rng.pick(brates)]), items=its, aslist=True,
                   names=rng.pick(['idx', 'rev', 'nat']),
                   pathkind=rng.pick(['path', 'str']),
                   # afterwards the same paths are rewritten (each part longer / shorter / as long) and reopened
                   rewrite=[rng.pick([0, 0, 3, -2, 17]) for _ in parts] if rng.random() < .5 else None)
