"""C12 — merged channel and template arrays are block-structured by probe (DESIGN.md §5 C12)."""
from . import common as C
from . import merge_common as M
from . import prop_c11 as F          # the merge as a function on a file system (Lean C11.merge)

PID = 'C12'
PARALLEL = True
BATCH = 60
BUDGET_S = {'quick': 80, 'thorough': 1200}
RULE = ('1..4 probes with different channel counts (>= 2) and template counts (>= 2), permuted channel '
        'maps, non-negative coordinates (incl. probes whose channels share one x, fractional coordinates k/4, handed to '
        'the model exactly in quarter units, and - every third case - coordinates in FINE UNITS (nm instead of um: each site '
        'off the nominal grid by a few units) of every magnitude up to the largest at which the stored dtype and the '
        'arithmetic of the merge are exact: 2**19 for single precision files, 2**16 / 2**31 / 2**32 for uint16 / int32 / '
        'uint32 files, 2**47 for int64 / float64 files - integer files beyond 2**24 need every bit of a double; in half of these cases the positions dtype is drawn PER PROBE '
        '(float32 / float64 / integer files mixed, each probe in a unit of its own: the merge is exact in double precision only)), index tables (incl. tables of different widths across probes: min(3, n) wide) of '
        'int32/int64/uint32, whitening / inverse whitening / similarity matrices in all, some or none of the probes '
        '(written or skipped as Lean mergeOptional decides); every template cell is a distinct token. One case = one '
        'real Merger.merge(), also run through the Lean file-system model of the whole merge; every fourth case uses '
        'a Merger / process that has merged before, every fourth case is a merge RETRIED on the same Merger after a '
        'merge() that raised half-way because a required file of one probe was not there yet (Lean mergeRetry, theorem '
        'C11.merge_again_as_fresh). non-trivial = >= 2 probes (>= 3 probes of different sizes are '
        'forced in the first cases)')
ASSUMPTIONS = ['np.save/np.load are transport; scipy.linalg.block_diag is modelled by a list definition',
               'pc_feature_ind.npy and template_feature_ind.npy are present in every probe (Merger requires them)']


def impl(case):
    return F.impl(case)       # incl. the `again` modes: a Merger / process that has merged before, or whose merge() raised


def model_query(case, impl_res):
    P = case['probes']
    toff, t = [], 0
    for p in P:
        toff.append(t)
        t += len(p['templates'])
    return dict(p=PID, op='merge_channels', maps=[p['channel_map'] for p in P],
                positions=[[[F.pos_tok(x), F.pos_tok(y)] for x, y in p['channel_positions']] for p in P],
                nts=[len(p['templates']) for p in P], ns=len(P[0]['templates'][0]), toks=[p['tok'] for p in P],
                pc_ind=[p['pc_feature_ind'] for p in P], tf_ind=[p['template_feature_ind'] for p in P],
                template_offsets=toff, spike_templates=[p['spike_templates'] for p in P],
                wm_present=[p.get('whitening') is not None for p in P],
                wmi_present=[p.get('whitening_inv') is not None for p in P],
                sim_present=[p.get('similar_templates') is not None for p in P],
                params=[[int(round(p['sample_rate'] * F.RATE_SCALE)), p['n_channels_dat']] for p in P],
                _second=F.fs_query(case))


def judge(case, impl_res, ans):
    if 'err' in ans:
        return 'MACHINERY: driver error %s' % ans['err']
    m = ans['ok']
    P = case['probes']
    ncs = [len(p['channel_map']) for p in P]
    nts = [len(p['templates']) for p in P]
    choff = [sum(ncs[:k]) for k in range(len(P))]
    toff = [sum(nts[:k]) for k in range(len(P))]
    # raw-data offsets (running max + 1) and index offsets (running channel count): equal for
    # permutation maps (theorem chanOffsets_eq_prefix), different when a map has gaps
    raw_off, off = [], 0
    for p in P:
        raw_off.append(off)
        off = max(c + off for c in p['channel_map']) + 1
    gapped = any(sorted(p['channel_map']) != list(range(len(p['channel_map']))) for p in P)
    if m.get('template_offsets') != toff:
        return 'MACHINERY: Lean template offsets (C11.templateOffsets) differ from the cumulative template counts'
    if m['channel_offsets'] != raw_off or m['channel_index_offsets'] != choff or (not gapped and raw_off != choff):
        return 'MACHINERY: Lean channel offsets differ from their definitions (contradicts the theorems)'
    if 'raised' in impl_res:
        return 'SPEC: Merger.merge() raised %s (%s) at %s on an in-domain input' % (
            impl_res['raised'], impl_res['msg'], impl_res['where'])
    ok = impl_res['ok']
    if ok.get('second_merge_differs'):
        return 'SPEC: merging the same probes a second time in the same process gave different files: %s' % ok['second_merge_differs'][:4]
    # channels
    exp_map = [c + raw_off[k] for k, p in enumerate(P) for c in p['channel_map']]
    if ok['channel_map']['vals'] != exp_map or m['channel_map'] != exp_map:
        return 'SPEC: merged channel_map is not the per-probe maps shifted into contiguous blocks (got %s, expected %s)' % (
            ok['channel_map']['vals'], exp_map)
    if ok['channel_probe']['vals'] != [k for k, n in enumerate(ncs) for _ in range(n)]:
        return 'SPEC: channel_probe does not label each block with its probe index'
    # geometry
    pos = ok['channel_positions']['vals']
    i = 0
    blocks = []
    for k, p in enumerate(P):
        blk = pos[i:i + ncs[k]]
        i += ncs[k]
        dx = {round(b[0] - a[0], 6) for a, b in zip(p['channel_positions'], blk)}
        dy = {round(b[1] - a[1], 6) for a, b in zip(p['channel_positions'], blk)}
        if len(dx) != 1 or dy != {0.0}:
            return 'SPEC: probe %d geometry is not kept up to a translation along x (x moved by %s, y moved by %s)' % (
                k, sorted(dx)[:4], sorted(dy)[:4])
        blocks.append(blk)
    allpos = [tuple(x) for b in blocks for x in b]
    for a in range(len(blocks)):
        for b in range(a + 1, len(blocks)):
            if set(map(tuple, blocks[a])) & set(map(tuple, blocks[b])):
                return 'SPEC: channels of probes %d and %d end at the same position (not kept apart)' % (a, b)
    # templates
    if ok['templates']['shape'] != [sum(nts), len(P[0]['templates'][0]), sum(ncs)]:
        return 'SPEC: merged templates shape %s' % ok['templates']['shape']
    def _tok(v):
        return 'nan' if v != v else ('inf' if v in (float('inf'), float('-inf')) else int(v))
    exp_t = [[list(row) for row in t] for t in m['templates']]
    # empty templates stored as NaN (KiloSort 2): NaN on THEIR cells of THEIR probe's block only; zeros on the channels of
    # the other probes like any other template (read off the probes of the case, so that shrinking stays consistent)
    for k, p in enumerate(P):
        for t, tm in enumerate(p['templates']):
            if all(v != v for row in tm for v in row):
                g, c0 = sum(nts[:k]) + t, sum(ncs[:k])
                if g < len(exp_t):
                    for row in exp_t[g]:
                        for c in range(ncs[k]):
                            row[c0 + c] = 'nan'
    if [[[_tok(v) for v in row] for row in t] for t in ok['templates']['vals']] != exp_t:
        return 'SPEC: templates are not block-structured (template t of probe k at toff_k + t on probe k\'s channel block, zeros elsewhere)'
    # index tables
    exp_pc = [[c + choff[k] for c in row] for k, p in enumerate(P) for row in p['pc_feature_ind']]
    if ok['pc_feature_ind']['vals'] != exp_pc or m['pc_ind'] != exp_pc:
        return 'SPEC: pc_feature_ind is not shifted into the merged channel numbering (got %s, expected %s)' % (
            ok['pc_feature_ind']['vals'], exp_pc)
    exp_tf = [[c + toff[k] for c in row] for k, p in enumerate(P) for row in p['template_feature_ind']]
    if ok['template_feature_ind']['vals'] != exp_tf or m['tf_ind'] != exp_tf:
        return 'SPEC: template_feature_ind is not shifted into the merged template numbering (got %s, expected %s)' % (
            ok['template_feature_ind']['vals'], exp_tf)
    if ok['channel_probe']['vals'] != m['channel_probe']:
        return 'SPEC: channel_probe differs from the model'
    # optional matrices: Lean `mergeOptional` decides written (block-diagonal) / skipped (theorems optional_*)
    for key, fn, mk in (('whitening', 'whitening_mat', 'whitening'), ('similar_templates', 'similar_templates', 'similar'),
                        ('whitening_inv', 'whitening_mat_inv', 'whitening_inv')):
        if (m[mk] is None) != any(p.get(key) is None for p in P):
            return 'MACHINERY: Lean mergeOptional contradicts optional_skipped_iff'
        if m[mk] is None:
            if fn == 'whitening_mat_inv':
                continue         # skipped by the merger, then computed and written by the final load_model (C04)
            if ok[fn] is not None:
                return 'SPEC: %s.npy written although only some probes have it (its blocks cannot be placed)' % fn
        else:
            if ok[fn] is None:
                return 'SPEC: %s.npy missing although every probe has it' % fn
            if [[int(v) for v in row] for row in ok[fn]['vals']] != m[mk]:
                return 'SPEC: %s is not block-diagonal with the per-probe matrices as blocks' % fn
    # params: Lean `mergeParams` (first probe's rate, summed raw channel count)
    if m['params'] is None or [int(round(float(ok['params'].get('sample_rate')) * F.RATE_SCALE)),
                               ok['params'].get('n_channels_dat')] != m['params']:
        return 'SPEC: merged params do not keep the sampling rate / declare the summed raw channel count'
    mm = ok['model']
    if mm['n_templates'] != sum(nts) or mm['n_channels'] != sum(ncs) or mm['channel_probes'] != m['channel_probe']:
        return 'SPEC: the TemplateModel returned by merge() does not show the merged templates / channels / probe labels'
    if [[x * F.POS_SCALE, y * F.POS_SCALE] for x, y in pos] != [[float(x), float(y)] for x, y in m['positions']]:
        return 'CORR: merged positions differ from the model (exact comparison in units of 1/%d)' % F.POS_SCALE
    # the merge as a function on directories (Lean C11.merge): files created, contents of the channel/template files
    return F.fs_compare(case, ok, ans.get('second') or {'err': 'no answer'}, F.C12_FILES)


# Largest input coordinate (in the unit of the file) for which every value of a merge of <= 4 probes is exact: it is
# stored exactly in the file's dtype, and the translated x (offsets 2*max - min accumulate: at most 15 times the largest
# input x for the fourth probe, 30 times for the offset computed after it) is exact in the arithmetic the merger uses for
# that dtype - single precision for float32 files (24 bits), double precision otherwise (53 bits, two of them kept for
# the quarter units of the model).
COORD_LIMIT = dict(float32=2 ** 24 // 32, float64=2 ** 53 // 64, int64=2 ** 53 // 64, int32=2 ** 31 - 1,
                   uint32=2 ** 32 - 1, uint16=2 ** 16 - 1)


POS_DTYPES = ('float64', 'float32', 'int32', 'uint32', 'int64', 'uint16')


def fine_units(case, rng, mixed=False):
    """The probes' coordinates re-expressed in a finer unit (u units per um, u drawn so that the largest coordinate takes
    any number of bits up to COORD_LIMIT of the stored dtype), every site off the nominal grid by a few units: the
    geometry is the same picture, the numbers need up to every bit of the mantissa. Probes whose channels share one x
    still do.

    mixed (>= 2 probes): the probes were written by different tools - channel_positions.npy in a floating or integer
    dtype drawn PER PROBE (at least two different ones), each probe in a unit of its own (nm next to um). Coordinates of
    different precisions have one exact merge only in the widest of them (double precision as soon as two dtypes
    differ), so a single precision probe may hold anything single precision stores exactly (24 bits)."""
    P = case['probes']
    if any(v != int(v) for p in P for xy in p['channel_positions'] for v in xy):
        return case
    mixed = mixed and len(P) > 1
    if mixed:
        dts = [rng.pick(POS_DTYPES) for _ in P]
        while len(set(dts)) < 2:
            dts[rng.randrange(len(P))] = rng.pick(POS_DTYPES)
        for p, dt in zip(P, dts):
            p['dtypes'] = dict(p['dtypes'], channel_positions=dt)
    lims = [2 ** 24 if mixed and p['dtypes']['channel_positions'] == 'float32'
            else COORD_LIMIT[p['dtypes'].get('channel_positions', 'float64')] for p in P]
    groups = [[k] for k in range(len(P))] if mixed else [list(range(len(P)))]        # probes sharing one unit
    us = []
    for g in groups:
        lim = min(lims[k] for k in g)
        top = int(max(v for k in g for xy in P[k]['channel_positions'] for v in xy)) + 1
        nb = rng.randrange(min(17, lim.bit_length() - 3), lim.bit_length() + 1)       # the largest coordinate has ~nb bits
        u = max(1, rng.randrange(2 ** (nb - 1), min(2 ** nb, lim + 1)) // top)
        if u < 2 and not mixed:
            return case
        us.append(u)
        for k in g:
            p = P[k]
            one_x = len({x for x, y in p['channel_positions']}) == 1
            jx = rng.randrange(min(u, 50))
            p['channel_positions'] = [[float(int(x) * u + (jx if one_x else rng.randrange(min(u, 50)))),
                                       float(int(y) * u + rng.randrange(min(u, 50)))] for x, y in p['channel_positions']]
    case['fine_units'] = us if mixed else us[0]
    return case


def pos_dtypes(case):
    return [(p.get('dtypes') or {}).get('channel_positions', 'float64') for p in case['probes']]


def coord_bits(case):
    return max(int(abs(v)).bit_length() for p in case['probes'] for xy in p['channel_positions'] for v in xy)


def nontrivial(case):
    return len(case['probes']) >= 2


def tally(rep, case, impl_res, ans):
    rep.count('again:%s' % case.get('again', 'no'))
    F.tally_retry(rep, case, impl_res, ans)
    if any(all(v != v for row in tm for v in row) for p in case['probes'] for tm in p['templates']):
        rep.count('a probe with an empty (all-NaN) template')
    rep.count('probe_dir_names:%s/%s' % (case.get('dirnames', 'idx'), case.get('dirkind', 'path')))
    rep.count('probes:%d' % len(case['probes']))
    if ragged_tables(case):
        rep.count('index tables of different widths across probes')
    if case.get('fractional_positions'):
        rep.count('fractional probe coordinates (multiples of 1/4)')
    if case.get('fine_units'):
        rep.count('coordinates in fine units (a site = grid * u + a few units)')
    nb = coord_bits(case)
    rep.count('largest coordinate: ' + ('<= 8 bits' if nb <= 8 else '9..16 bits' if nb <= 16 else '17..24 bits' if nb <= 24
                                         else '25..32 bits (beyond single precision)' if nb <= 32
                                         else '33..47 bits (beyond single precision)'))
    if nb > 24 and any('int' in dt for dt in pos_dtypes(case)):
        rep.count('integer-stored coordinates that need more than the 24 bits of single precision')
    for dt in pos_dtypes(case):
        rep.count('positions_dtype:' + dt)
    if len(set(pos_dtypes(case))) > 1:
        rep.count('positions dtype differs across probes (mixed precisions / integer and floating files)')
        if any(dt == 'float32' and k > 0 for k, dt in enumerate(pos_dtypes(case))):
            rep.count('a single precision probe translated after other probes of another dtype')
    P = case['probes']
    if len({len(p['channel_map']) for p in P}) > 1:
        rep.count('different_channel_counts')
    if any(sorted(p['channel_map']) != list(range(len(p['channel_map']))) for p in P):
        rep.count('channel_map_with_gaps')
    if len({len(p['templates']) for p in P}) > 1:
        rep.count('different_template_counts')
    for p in P:
        rep.count('ind_dtype:' + p['dtypes']['pc_feature_ind'])
    if any(len({x for x, y in p['channel_positions']}) == 1 for p in P):
        rep.count('single_x_column_probe')
    for key in ('similar_templates', 'whitening', 'whitening_inv'):
        n = sum(1 for p in P if p.get(key) is not None)
        rep.count('optional_%s:%s' % (key, 'all' if n == len(P) else 'none' if n == 0 else 'some'))


def ragged_tables(case):
    """the probes' pc_feature_ind (or template_feature_ind) tables have different row widths"""
    P = case['probes']
    return any(len({len(row) for p in P for row in p[key]}) > 1 for key in ('pc_feature_ind', 'template_feature_ind'))


def classify(case, impl_res, ans, why):
    P = case['probes']
    site = 'other'
    for key, name in (('same position', 'positions_apart'), ('translation along x', 'positions_translated'),
                      ('channel_map', 'channel_map'), ('channel_probe', 'channel_probe'), ('templates', 'templates'),
                      ('pc_feature_ind', 'pc_feature_ind'), ('template_feature_ind', 'template_feature_ind'),
                      ('block-diagonal', 'block_diag'), ('params', 'params'), ('raised', 'raised')):
        if key in why:
            site = name
            break
    one_x = [len({x for x, y in p['channel_positions']}) == 1 for p in P]
    if site == 'positions_apart':
        # the two probes the judge names: the class is "a single-column probe is involved in THIS collision"
        import re
        pair = [int(g) for g in re.findall(r'probes (\d+) and (\d+)', why)[0]]
        single_x = any(one_x[k] for k in pair if k < len(P))
    else:
        single_x = any(one_x)
    return dict(kind=why.split(':')[0], site=site, nprobes_ge3=len(P) >= 3, ragged_tables=ragged_tables(case),
                single_x=single_x, mixed_position_dtypes=len(set(pos_dtypes(case))) > 1,
                uint_ind=any('uint' in p['dtypes']['pc_feature_ind'] or 'uint' in p['dtypes']['template_feature_ind'] for p in P),
                raised=impl_res.get('raised'), where=impl_res.get('where'),
                # what the exception says, independent of line numbers: np.concatenate refusing arrays of different widths
                raised_what=('np.concatenate: dimensions differ' if 'except for the concatenation axis must match' in str(impl_res.get('msg'))
                             else None))


def shrink(case):
    if case.get('again') or case.get('twice'):
        # first: does it fail on a fresh Merger in a fresh state too?
        yield F.without_again(case)
    P = case['probes']
    if len(P) > 1:
        for i in range(len(P)):
            c = F.drop_probe(case, i)
            if c is not None:
                yield c
    for k, p in enumerate(P):
        # coordinates are integers below 2**47 in the fine-unit cases: double precision holds them whatever the file's dtype
        if case.get('fine_units') and p['dtypes'].get('channel_positions', 'float64') != 'float64':
            q = dict(p); q['dtypes'] = dict(p['dtypes'], channel_positions='float64')
            yield dict(case, probes=P[:k] + [q] + P[k + 1:])
    for k, p in enumerate(P):
        for key in ('pc_feature_ind', 'template_feature_ind'):
            if p['dtypes'][key] != 'int64':
                q = dict(p); q['dtypes'] = dict(p['dtypes']); q['dtypes'][key] = 'int64'
                yield dict(case, probes=P[:k] + [q] + P[k + 1:])


def gen(tier, rng):
    q = tier == 'quick'
    forced = [(4, 6, 5), (2, 3, 5), (5, 2, 3), (3, 3, 3)]
    for i, ncs in enumerate(forced):
        probes = [M.probe_spec(rng, k, nc=nc, nt=[3, 2, 4][k], tdtype='uint64', idtype='uint32') for k, nc in enumerate(ncs)]
        yield dict(p=PID, probes=probes)
    for i in range(150 if q else 3000):
        kw = {}
        if i % 10 == 7:
            kw['single_x'] = True
        if i % 10 == 3:
            kw['last_template_empty'] = True
        if i % 5 == 1:
            kw['gapped'] = True       # channel maps with holes (dead channels): raw offsets != index offsets
        if i % 8 == 6:
            # the sorter lists min(3, n) channels / templates per template: a probe with 2 channels (templates) next to a
            # larger one has NARROWER index tables
            kw['nloc'] = kw['tl'] = 3
        case = dict(p=PID, **M.merge_case(rng, nprobes=[1, 2, 3, 4][i % 4] if i < 40 else None, **kw))
        if i % 3 == 1 and 'float' in case['probes'][0]['dtypes']['channel_positions']:
            # fractional coordinates (exact in single and double precision): each probe moved by a multiple of 1/4 along x,
            # each channel by one along y
            case['fractional_positions'] = True
            for p in case['probes']:
                dx = rng.randrange(4) / 4.
                p['channel_positions'] = [[x + dx, y + rng.randrange(4) / 4.] for x, y in p['channel_positions']]
        if i % 3 == 2:
            fine_units(case, rng, mixed=(i // 3) % 2 == 0)
        if i % 6 in (2, 5):
            # inverse whitening matrices stored in all (block-diagonal merge) or only some probes (skipped by the
            # merger, computed by the final load); tokens: the whitening tokens + 500000
            P = case['probes']
            keep = [True] * len(P) if i % 6 == 2 or len(P) == 1 else [rng.random() < .6 for _ in P]
            for k, p in enumerate(P):
                if keep[k]:
                    nc = len(p['channel_map'])
                    p['whitening_inv'] = [[float(p['tok'] * 10000 + a * 100 + b + 1 + (100000 if a == b else 0) + 500000)
                                           for b in range(nc)] for a in range(nc)]
        if i % 10 == 3 or i % 7 == 4:
            # a template WITHOUT SPIKES of one probe is empty: all NaN, as KiloSort 2 stores it (the loader reads it as zeros)
            P = case['probes']
            cand = [(k, t) for k, p in enumerate(P) for t in range(len(p['templates'])) if t not in p['spike_templates']]
            if cand:
                k, t = rng.pick(cand)
                P[k]['templates'][t] = [[float('nan')] * len(r) for r in P[k]['templates'][t]]
                case['nonfinite'] = [k, t, 'nan']
        yield F.with_again(case, i, rng)
