"""Which lines of the anchored phylib functions did the correspondence run actually execute?

The correspondence is differential testing: its strength is bounded by what the generators reach. This module
measures that reach on the REAL code: `sys.monitoring` (Python 3.12) LINE events, each location disabled after
its first hit (so the cost is one callback per line per process), restricted to /repo's phylib package. Worker
processes return the lines they saw for the first time with each result (`common._pool_call`), the verdict
process accumulates them, and `report(pid, hits)` relates them to the executable lines of the functions the
property is anchored in (`ANCHORS`, function names instead of the line ranges of properties.jsonl because the
38 repairs moved the lines). The result goes into the evidence file (`coverage.code_coverage`): per function
executable / executed lines and the line numbers never reached. It is a MEASUREMENT of the generators, never a
verdict: no alarm depends on it.
"""
import fnmatch
import sys
from pathlib import Path

_new = []
_on = False
_prefix = None

# property -> {file relative to phylib/: [qualified function names, fnmatch patterns allowed]}
ANCHORS = {
    'C01': {'io/traces.py': ['_get_subitems', '_item_length', '_find_chunks', '_get_part_bounds', '_memmap_flat',
                             'BaseEphysReader.__init__', 'BaseEphysReader.n_*', 'BaseEphysReader.shape',
                             'BaseEphysReader.duration', 'BaseEphysReader.__getitem__', 'FlatEphysReader.*',
                             'MtscompEphysReader.__init__', 'MtscompEphysReader._get_part', 'ArrayEphysReader.*',
                             'NpyEphysReader.*', '_get_ephys_constructor', 'get_ephys_reader']},
    'C02': {'io/traces.py': ['_apply_op', 'BaseEphysReader._append_op', 'BaseEphysReader._apply_ops',
                             'BaseEphysReader.__*__']},
    'C03': {'io/traces.py': ['_extract_waveform', 'extract_waveforms', 'iter_waveforms', 'export_waveforms',
                             '_npy_header', 'NpyWriter.*', 'get_spike_waveforms', 'BaseEphysReader.iter_chunks',
                             'MtscompEphysReader.iter_chunks'],
            'io/model.py': ['TemplateModel.get_waveforms', 'TemplateModel.save_spikes_subset_waveforms',
                            'TemplateModel._load_spike_waveforms']},
    'C04': {'io/model.py': ['read_array', 'load_model', 'get_template_params', '_create_if_possible', '_copy_if_possible',
                            'TemplateModel.__init__', 'TemplateModel._load_*', 'TemplateModel._find_path',
                            'TemplateModel._find_first_existing_path', 'TemplateModel._read_array',
                            'TemplateModel._compute_wmi', 'TemplateModel._unwhiten', 'TemplateModel.describe'],
            'utils/_misc.py': ['read_python']},
    'C05': {'io/model.py': ['get_closest_channels', 'TemplateModel._find_best_channels',
                            'TemplateModel._get_template_dense', 'TemplateModel._get_template_sparse',
                            'TemplateModel._unwhiten', 'TemplateModel.get_template',
                            'TemplateModel._template_n_channels']},
    'C06': {'io/model.py': ['from_sparse', 'compute_features', '_compute_pcs', '_project_pcs',
                            'TemplateModel.get_features', 'TemplateModel.get_template_features'],
            'io/array.py': ['_index_of']},
    'C07': {'io/array.py': ['_spikes_per_cluster', '_spikes_in_clusters', '_unique', '_index_of',
                            '_flatten_per_cluster', 'grouped_mean'],
            'io/model.py': ['TemplateModel.get_cluster_spikes', 'TemplateModel.get_template_spikes',
                            'TemplateModel.get_template_counts']},
    'C08': {'io/model.py': ['TemplateModel.get_merge_map', 'TemplateModel.cluster_waveforms',
                            'TemplateModel.get_cluster_mean_waveforms', 'TemplateModel.get_cluster_channels',
                            'TemplateModel._get_template_from_spikes', 'TemplateModel.get_template_waveforms',
                            'TemplateModel.get_template_counts']},
    'C09': {'io/model.py': ['TemplateModel.get_amplitudes_true', 'TemplateModel._amplitudes',
                            'TemplateModel.clusters_amplitudes', 'TemplateModel.templates_amplitudes',
                            'TemplateModel._channels', 'TemplateModel.templates_channels',
                            'TemplateModel.clusters_channels', 'TemplateModel._waveform_durations',
                            'TemplateModel.templates_waveforms_durations', 'TemplateModel.clusters_waveforms_durations',
                            'TemplateModel.get_depths', 'TemplateModel.templates_probes',
                            'TemplateModel.clusters_probes']},
    'C10': {'io/model.py': ['load_metadata', 'save_metadata', 'TemplateModel.save_spike_clusters',
                            'TemplateModel.save_metadata', 'TemplateModel._load_metadata',
                            'TemplateModel.save_spikes_subset_waveforms', 'TemplateModel._load_spike_waveforms',
                            'TemplateModel.close', '_close_memmap'],
            'utils/_misc.py': ['read_tsv', 'write_tsv', '_read_tsv_simple', '_write_tsv_simple', '_try_make_number']},
    'C11': {'io/merge.py': ['_concat', '_load_multiple_spike_times', '_load_multiple_spike_arrays',
                            '_load_multiple_files', 'Merger.__init__', 'Merger._save', 'Merger.write_spike_times',
                            'Merger.write_spike_data', 'Merger.write_spike_clusters', 'Merger.write_cluster_data',
                            'Merger.write_probe_desc', 'Merger.merge']},
    'C12': {'io/merge.py': ['Merger.write_channel_data', 'Merger.write_channel_positions', 'Merger.write_templates',
                            'Merger.write_template_data', 'Merger.write_misc', 'Merger.write_params',
                            '_load_multiple_files']},
    'C13': {'io/alf.py': ['_read_npy_header', '_create_if_possible', '_copy_if_possible', '_load',
                          'EphysAlfCreator.*']},
    'C14': {'io/alf.py': ['EphysAlfCreator.make_template_and_spikes_objects', 'EphysAlfCreator.make_cluster_objects',
                          'EphysAlfCreator.make_depths', 'EphysAlfCreator.make_channel_objects'],
            'io/model.py': ['TemplateModel.get_amplitudes_true', 'TemplateModel.get_depths',
                            'TemplateModel._waveform_durations', 'TemplateModel._channels',
                            'TemplateModel._amplitudes']},
    'C15': {'stats/ccg.py': ['*'], 'io/array.py': ['_index_of', '_unique'],
            'utils/_types.py': ['_as_array']},
    'C16': {'io/array.py': ['chunk_bounds', 'data_chunk', 'excerpts', '_excerpt_step', 'get_excerpts'],
            'io/traces.py': ['_get_chunk_bounds', 'BaseEphysReader.iter_chunks', 'MtscompEphysReader.iter_chunks',
                             'BaseEphysReader.n_chunks']},
    'C17': {'io/array.py': ['SpikeSelector.*', '_times_in_chunks', '_spikes_per_cluster', '_spikes_in_clusters']},
    'C18': {'utils/_misc.py': ['_encode_qbytearray', '_decode_qbytearray', '_CustomEncoder.default',
                               '_json_custom_hook', '_intify_keys', '_stringify_keys', '_pretty_floats',
                               'load_json', 'save_json', 'read_python', 'write_python', '_try_make_number',
                               'read_tsv', 'write_tsv', '_read_tsv_simple', '_write_tsv_simple'],
            'io/model.py': ['load_metadata', 'save_metadata']},
    'C19': {'utils/event.py': ['EventEmitter.*', 'ProgressReporter.*', '_default_on_progress',
                               '_default_on_complete', 'PartialFormatter.*']},
    'C20': {'io/datasets.py': ['_save_stream', '_download', 'download_text_file', '_md5', '_check_md5',
                               '_check_md5_of_url', 'download_file']},
}


def start(repo):
    """Switch line monitoring on in this process (idempotent; silently does nothing where unavailable)."""
    global _on, _prefix
    if _on:
        return
    mon = getattr(sys, 'monitoring', None)
    if mon is None:
        return
    try:
        mon.use_tool_id(mon.COVERAGE_ID, 'phyverif')
    except ValueError:
        return
    _prefix = str(Path(repo).resolve() / 'phylib') + '/'

    def on_line(code, line):
        fn = code.co_filename
        if fn.startswith(_prefix) and '/tests/' not in fn:
            _new.append((fn[len(_prefix):], line))
        return mon.DISABLE

    mon.register_callback(mon.COVERAGE_ID, mon.events.LINE, on_line)
    mon.set_events(mon.COVERAGE_ID, mon.events.LINE)
    _on = True


def drain():
    """Lines seen for the first time in this process since the last call."""
    global _new
    out, _new = _new, []
    return out


def _all_lines(code):
    """Every line that carries code in a compiled module, nested code objects included."""
    lines = {l for _, _, l in code.co_lines() if l is not None}
    for c in code.co_consts:
        if hasattr(c, 'co_lines'):
            lines |= _all_lines(c)
    return lines


def _functions(path):
    """qualname -> set of executable lines of the body, for every function / method of a source file (inner
    functions, lambdas and comprehensions are counted with the function that contains them; the `def` line and
    the decorators run at import and are left out)."""
    import ast
    src = Path(path).read_text()
    every = _all_lines(compile(src, str(path), 'exec'))
    out = {}

    def walk(node, pre):
        for c in node.body:
            if isinstance(c, (ast.FunctionDef, ast.AsyncFunctionDef)):
                first = c.body[0].lineno
                out.setdefault(pre + c.name, set()).update(
                    l for l in every if first <= l <= c.end_lineno)
            elif isinstance(c, ast.ClassDef):
                walk(c, pre + c.name + '.')
    walk(ast.parse(src), '')
    return out


def report(pid, hits, repo):
    """hits: iterable of (file relative to phylib/, line). -> dict for the evidence file."""
    hit = {}
    for f, l in hits:
        hit.setdefault(f, set()).add(l)
    res, tot, got = {}, 0, 0
    for f, pats in ANCHORS.get(pid, {}).items():
        path = Path(repo) / 'phylib' / f
        if not path.exists():
            res['%s' % f] = 'file not found'
            continue
        try:
            funcs = _functions(path)
        except SyntaxError as e:
            res['%s' % f] = 'cannot compile: %s' % e
            continue
        for q, lines in sorted(funcs.items()):
            if not any(fnmatch.fnmatchcase(q, p) for p in pats):
                continue
            h = lines & hit.get(f, set())
            tot += len(lines)
            got += len(h)
            ent = dict(lines=len(lines), executed=len(h))
            missed = sorted(lines - h)
            if missed:
                ent['never_executed'] = missed
            res['%s::%s' % (f, q)] = ent
    return dict(executable_lines=tot, executed_lines=got,
                percent=round(100. * got / tot, 1) if tot else None, functions=res,
                note='line coverage of the anchored functions of the REAL code during this run '
                     '(sys.monitoring); a measurement of the generators, not a verdict')


# ----------------------------------------------------------------------------------------------------------------
# Advisory: did the anchored code change since the model was last reviewed against it?  (DESIGN §2.3, end)
# ----------------------------------------------------------------------------------------------------------------

COMMON_FILES = ['io/array.py', 'utils/_types.py', 'utils/_misc.py']     # helpers most anchored functions call


def anchor_digests(pid, repo):
    """function -> sha1 of its AST (no positions, no comments, docstrings kept out), for the anchored functions;
    plus one entry per anchored file and per common helper file (the whole file's AST)."""
    import ast
    import hashlib
    out = {}
    for f in sorted(set(ANCHORS.get(pid, {})) | set(COMMON_FILES)):
        try:
            out['file:%s' % f] = hashlib.sha1(ast.dump(ast.parse((Path(repo) / 'phylib' / f).read_text())).encode()).hexdigest()[:16]
        except (OSError, SyntaxError):
            out['file:%s' % f] = 'unreadable'
    for f, pats in ANCHORS.get(pid, {}).items():
        path = Path(repo) / 'phylib' / f
        try:
            tree = ast.parse(path.read_text())
        except (OSError, SyntaxError):
            out['%s' % f] = 'unreadable'
            continue

        def walk(node, pre):
            for c in node.body:
                if isinstance(c, (ast.FunctionDef, ast.AsyncFunctionDef)):
                    q = pre + c.name
                    if any(fnmatch.fnmatchcase(q, p) for p in pats):
                        body = c.body
                        if body and isinstance(body[0], ast.Expr) and isinstance(getattr(body[0], 'value', None), ast.Constant) \
                                and isinstance(body[0].value.value, str):
                            body = body[1:]
                        txt = ast.dump(c.args) + ''.join(ast.dump(b) for b in body) + ''.join(ast.dump(d) for d in c.decorator_list)
                        key = '%s::%s' % (f, q)
                        n = 2
                        while key in out:           # property getter / setter pairs share a name
                            key = '%s::%s#%d' % (f, q, n)
                            n += 1
                        out[key] = hashlib.sha1(txt.encode()).hexdigest()[:16]
                elif isinstance(c, ast.ClassDef):
                    walk(c, pre + c.name + '.')
        walk(tree, '')
    return out


def anchors_changed(pid, repo, verif):
    """Names of anchored functions whose AST differs from the digests recorded in anchors_digest.json (written by
    tools/update_anchor_digests.py for the tree the models were last reviewed against). Advisory only."""
    import json
    p = Path(verif) / 'anchors_digest.json'
    if not p.exists():
        return []
    allref = json.loads(p.read_text())
    if allref.get('_python') != '%d.%d' % sys.version_info[:2]:
        return []                                   # digests of another Python version are not comparable
    ref = allref.get(pid, {})
    cur = anchor_digests(pid, repo)
    return sorted(k for k in set(ref) | set(cur) if ref.get(k) != cur.get(k))
