"""C13 — ALF export writes consistent object tables that load back to the same spikes (DESIGN.md §5 C13)."""
import numpy as np
from . import common as C
from . import dense_common as DC
from . import merge_common as M
from . import alf_common as A

PID = 'C13'
PARALLEL = True
BATCH = 60
BUDGET_S = {'quick': 90, 'thorough': 1500}
RULE = ('dense datasets with/without raw data, features, curated clusters (ids with gaps, empty ids), probe table, '
        'KSLabel file, (n,1)-shaped vectors, temp_wh.dat; labels empty or not; unit factors 1 and 2.5; ids below '
        '65536; plus datasets merged from 2..3 probes. One case = one real EphysAlfCreator.convert() followed by a '
        'fresh load_model of the output. non-trivial = every case')
ASSUMPTIONS = ['uuid4 identifiers are opaque tokens assumed distinct', 'np.save/np.load are transport',
               'for a multi-probe (merged) source the reloaded channel map is the per-probe re-expression of C14; equality of '
               'channel maps is claimed for single-probe sources only',
               're-exporting over an output directory that holds an older export (stale cluster/template tables) is exercised '
               'without a label only: with a label the second renaming pass re-labels the files of the older export, and '
               'pre-existing output files are outside the quantifier of the property']
FAMILIES = ('spikes', 'clusters', 'templates', 'channels')


def impl(case):
    return A.run_export(case)


def model_query(case, impl_res):
    if 'ok' not in impl_res:
        return dict(p=PID, op='convert', n_spikes=1, n_clusters=1, n_templates=1, n_channels=1, label='', same_dir=False)
    sm = impl_res['ok']['src_model']
    return dict(p=PID, op='convert', n_spikes=len(sm['spike_samples']), n_clusters=sm['n_clusters'],
                n_templates=sm['n_templates'], n_channels=sm['n_channels'], label=case.get('label', ''), same_dir=False)


def judge(case, impl_res, ans):
    if 'err' in ans:
        return 'MACHINERY: driver error %s' % ans['err']
    if 'raised' in impl_res:
        return 'SPEC: ALF conversion raised %s (%s) at %s on an in-domain dataset' % (
            impl_res['raised'], impl_res['msg'], impl_res['where'])
    ok = impl_res['ok']
    sm = ok['src_model']
    label = case.get('label', '')
    curated = sm['spike_clusters'] != sm['spike_templates']
    ncl = (max(sm['spike_clusters']) + 1) if curated else sm['n_templates']
    counts = dict(spikes=len(sm['spike_samples']), clusters=ncl, templates=sm['n_templates'], channels=sm['n_channels'])
    if ok['same_dir_refused'] is not True or not ok['src_after_refusal_unchanged']:
        return 'SPEC: conversion into the source directory was not refused (or changed the source)'
    # first dimensions and labels of every object file
    for name in ok['files']:
        parts = name.split('.')
        if parts[0] not in FAMILIES:
            continue
        stem = name[:-len(parts[-1]) - 1]                 # the name without its extension
        if label and not (stem.endswith('.' + label) and len(stem) - len(label) - 1 > len(parts[0])):
            return 'SPEC: label %r is not inserted before the extension of %s' % (label, name)
        if not label and len(parts) != 3:
            return 'SPEC: unexpected file name %s without a label' % name
        if name.endswith('.npy'):
            rows = ok['arrays'][name]['shape'][0] if ok['arrays'][name]['shape'] else None
        else:
            rows = len(ok['uuids']) - 1 if parts[1] == 'uuids' else None
        if rows is not None and rows != counts[parts[0]]:
            return 'SPEC: %s has first dimension %s, expected %d (%s)' % (name, rows, counts[parts[0]], parts[0])
    if ok['uuids'] is None or ok['uuids'][0] != 'uuids' or len(set(ok['uuids'][1:])) != ncl:
        return 'SPEC: clusters.uuids does not hold one unique identifier per cluster'

    def arr(stem):
        return ok['arrays'].get(stem + ('.%s' % label if label else '') + '.npy')
    t, s = arr('spikes.times'), arr('spikes.samples')
    if t is None or s is None or t['vals'] != sm['spike_times'] or s['vals'] != sm['spike_samples']:
        return 'SPEC: spikes.times / spikes.samples are not the source times in seconds / samples'
    if not all(abs(a - b / sm['sample_rate']) <= 1e-12 * max(1, abs(a)) for a, b in zip(t['vals'], s['vals'])):
        return 'SPEC: spikes.times is not spikes.samples divided by the sampling rate'
    # round trip
    for who in ('fresh', 'ret'):
        r = ok.get(who)
        if r is None:
            return 'SPEC: conversion returned no model' if who == 'ret' else 'SPEC: output cannot be loaded'
        for key in ('spike_times', 'spike_samples', 'spike_clusters', 'spike_templates', 'channel_positions'):
            if r[key] != sm[key]:
                return 'SPEC: %s of the %s model differs from the source' % (key, 'returned' if who == 'ret' else 'reloaded')
        if len(set(sm['channel_probes'])) == 1 and r['channel_mapping'] != sm['channel_mapping']:
            return 'SPEC: channel map of the %s model differs from the source (single probe)' % who
    # frame
    bad = [f for f in ok['src_changed'] if not f.startswith('_phy_spikes_subset.') and f != 'temp_wh.dat']
    if bad:
        return 'SPEC: source files changed by the conversion: %s' % bad
    # correspondence with the model's file table
    have = {}
    for name in ok['files']:
        parts = name.split('.')
        if parts[0] in FAMILIES:
            have[name] = (ok['arrays'][name]['shape'][0] if name in ok['arrays'] and ok['arrays'][name]['shape'] else
                          (len(ok['uuids']) - 1 if parts[1] == 'uuids' else None))
    for name, rows in ans['ok']['model']:
        if have.get(name) != rows:
            return 'CORR: model expects %s with %d rows, output has %s' % (name, rows, have.get(name))
    return None


def nontrivial(case):
    return True


def tally(rep, case, impl_res, ans):
    if case.get('spec') and case['spec']['n_channels'] == 1:
        rep.count('single_channel_dataset')
    if case.get('spec'):
        rep.count('positions_dtype:' + (case['spec'].get('dtypes') or {}).get('channel_positions', 'float64'))
    rep.count('label:%r' % case.get('label', ''))
    if case.get('reexport'):
        rep.count('re-export over a stale output directory')
    rep.count('merged' if case.get('probes') else 'single')
    rep.count('label:%s' % bool(case.get('label')))
    if not case.get('probes'):
        s = case['spec']
        rep.count('curated:%s' % (s.get('spike_clusters') is not None))
        rep.count('raw:%s' % bool(s.get('raw')))
        rep.count('features:%s' % (s.get('pc_features') is not None))
        rep.count('vec2d:%s' % bool(s.get('vec2d')))


def classify(case, impl_res, ans, why):
    return dict(kind=why.split(':')[0], what=why.split(':')[1].strip()[:40], merged=bool(case.get('probes')),
                label=bool(case.get('label')), raised=impl_res.get('raised'), where=impl_res.get('where'))


def gen(tier, rng):
    q = tier == 'quick'
    for i in range(400 if q else 4000):
        if i % 6 == 5:
            c = M.merge_case(rng, nprobes=2 + i % 2)
            yield dict(p=PID, probes=c['probes'], dirnames=c['dirnames'], factor=1, label=['', 'probe01'][i % 2])
            continue
        huge = not q and i in (8, 1508)
        # (the exporter recomputes the peak channels of ALL clusters once per cluster id, so a dataset with ids
        # beyond 32767 costs time quadratic in the largest id: such datasets are kept narrow and short)
        spec = DC.dense_spec(rng, raw=(i % 3 != 2), feats=(i % 2 == 0) and i % 23 != 3, probes=(i % 5 == 0), empty=['none', 'last', 'middle', 'first'][i % 4],
                             cmap=['identity', 'random'][i % 2], nc=(2 if huge else 1 if i % 23 == 3 else None),      # also single-channel datasets
                             nsw=(2 if huge else None))
        if i % 4 == 1:
            spec['text_files'] = {'cluster_KSLabel.tsv': 'cluster_id\tKSLabel\n0\tgood\n1\tmua\n'}
        if i % 7 == 3:
            spec['vec2d'] = True
        if i % 3 == 1:     # probe coordinates stored as integers
            spec['dtypes'] = dict(spec.get('dtypes') or {}, channel_positions=['int32', 'uint32', 'int64', 'uint16'][(i // 3) % 4])
        if i % 50 == 7 or huge:
            # large cluster ids (beyond 255; in the thorough tier beyond 32767): the exported id tables are uint16
            big = 300 if i % 50 == 7 else 33000
            sc_ = list(spec.get('spike_clusters') or spec['spike_templates'])
            sc_[0] = big
            sc_[-1] = big - 1
            spec['spike_clusters'] = sc_
        # labels incl. ones that occur inside ALF file names or look like extensions
        label = ['', 'probe00', '', 'a', 'raw', '', 'amps', 'npy', 'spikes', 'x.y', 'clusters'][i % 11]
        yield dict(p=PID, spec=spec, factor=[1, 2.5][i % 2], label=label, temp_wh=(i % 4 == 0), rs=i,
                   reexport=(i % 5 == 2 and label == ''))
