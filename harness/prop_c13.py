"""C13 — ALF export writes consistent object tables that load back to the same spikes (DESIGN.md §5 C13)."""
import numpy as np
from pathlib import Path
from . import common as C
from . import dense_common as DC
from . import merge_common as M
from . import alf_common as A
from . import dataset as D
from fractions import Fraction

PID = 'C13'
PARALLEL = True
BATCH = 60
BUDGET_S = {'quick': 90, 'thorough': 1500}
RULE = ('dense datasets with/without raw data, features, curated clusters (ids with gaps, empty ids), probe table, '
        'KSLabel file, optional channel_labels / cluster_shanks / drift files, (n,1)-shaped vectors, temp_wh.dat; labels '
        'empty or not; unit factors 1 and 2.5; ids below 65536; plus datasets merged from 2..3 probes. One case = one real '
        'EphysAlfCreator.convert() followed by a fresh load_model of the output; the SAME source (view of the loaded '
        'model + listing of the source directory) goes to the Lean model convertFS, which computes both directories '
        'afterwards. non-trivial = every case')
ASSUMPTIONS = ['uuid4 identifiers: the generator is a parameter of the model, its contract (distinct outputs) a hypothesis of '
               'export_uuids; distinctness is DECIDED on the real file by the Lean executable (uuidOKb)',
               'np.save/np.load are transport',
               'for a multi-probe (merged) source the reloaded channel map is the per-probe re-expression of C14; equality of '
               'channel maps is claimed for single-probe sources only',
               're-exporting over an output directory that holds an older export (stale cluster/template tables) is exercised '
               'without a label only: with a label the second renaming pass re-labels the files of the older export, and '
               'pre-existing output files are outside the quantifier of the property',
               'spikes.times is compared EXACTLY with the model rational samples/rate rounded once (one IEEE division of two '
               'exactly represented numbers); |sample| < 2^53']
FAMILIES = ('spikes', 'clusters', 'templates', 'channels')
SUBSET = ('_phy_spikes_subset.spikes.npy', '_phy_spikes_subset.channels.npy', '_phy_spikes_subset.waveforms.npy')


def _run_twice(case):
    """ONE EphysAlfCreator converts the same loaded model several times (case['twice'] = [(label, ampfactor), ...]);
    the last output directory is compared, object file by object file, with the output of a freshly loaded model
    converted once with the arguments of the last conversion."""
    from phylib.io.alf import EphysAlfCreator
    from phylib.io.model import load_model
    with C.scratch_dir() as d:
        src = d / 'src'
        params = D.write_dataset(src, case['spec'])
        load_model(params).close()
        runs = [tuple(x) for x in case['twice']]
        m = load_model(params)
        try:
            creator = EphysAlfCreator(m)
            for k, (label, f) in enumerate(runs):
                np.random.seed(case.get('rs', 0))
                m2 = creator.convert(d / ('out%d' % k), label=label, ampfactor=f)
                if m2 is not None:
                    m2.close()
        finally:
            m.close()
        label, f = runs[-1]
        m = load_model(params)
        try:
            np.random.seed(case.get('rs', 0))
            m2 = EphysAlfCreator(m).convert(d / 'ref', label=label, ampfactor=f)
            if m2 is not None:
                m2.close()
        finally:
            m.close()
        last, ref = d / ('out%d' % (len(runs) - 1)), d / 'ref'
        names = sorted(p.name for p in ref.iterdir() if p.name.split('.')[0] in FAMILIES)
        diff = [n for n in sorted(p.name for p in last.iterdir() if p.name.split('.')[0] in FAMILIES) if n not in names]
        for n in names:
            if not (last / n).exists():
                diff.append(n)
            elif n.endswith('.npy'):
                a, b = np.load(last / n), np.load(ref / n)
                if a.dtype != b.dtype or a.shape != b.shape or not np.array_equal(a, b, equal_nan=a.dtype.kind == 'f'):
                    diff.append(n)
        return dict(twice_diff=diff, n_files=len(names))


def impl(case):
    if case.get('twice'):
        return _run_twice(case)
    return _impl_once(case)


def _impl_once(case):
    """One real conversion (alf_common.run_export). The three listings run_export takes of the source directory
    (before, after the refused same-directory attempts, after the conversion) are recorded here, the first one together
    with the first dimensions of the source arrays: this is the source directory the Lean model starts from."""
    rec = []
    orig = A._hash_dir

    def recording(d, skip=None):
        h = orig(d, skip=skip)
        entry = dict(hashes=h)
        if not rec:
            meta = {}
            for p in sorted(Path(d).iterdir()):
                if p.is_file() and p.suffix == '.npy':
                    a = np.load(p, mmap_mode='r')
                    meta[p.name] = dict(shape=list(a.shape))
                    if a.size <= 4096:
                        # content of the source tables the conversion copies (judged against the output files)
                        meta[p.name].update(dtype=str(a.dtype), flat=_flat(np.asarray(a)))
                    if p.name in ('spike_clusters.npy', 'spike_templates.npy'):
                        meta[p.name]['vals'] = [int(x) for x in np.asarray(a).ravel()]
                    del a
            entry['npy'] = meta
        rec.append(entry)
        return h
    A._hash_dir = recording
    try:
        res = A.run_export(case)
    finally:
        A._hash_dir = orig
    res['listings'] = rec
    return res


def _flat(a):
    a = np.asarray(a)
    return [None if (isinstance(x, float) and x != x) else x for x in a.ravel().tolist()]


def _copied_content(ok, mod):
    """CONTENT of the files the conversion copies (`_FILE_RENAMES`): the model tags a verbatim copy with the digest of its
    source file - the real output file must have the same bytes (params.py, cluster_KSLabel.tsv,
    _kilosort_whitening.matrix.npy, channels.localCoordinates, channels.probes/labels, clusters.probes/shanks, drift*) -
    and a re-saved (n,1) vector with `squeeze:`+digest: same dtype, same values, one dimension."""
    src_h, meta = ok['listings'][0]['hashes'], ok['listings'][0].get('npy') or {}
    by_tag = {}
    for n, h in src_h.items():
        by_tag.setdefault(h[:16], n)
    for e in mod['out']:
        name, tag = e['name'], e['tag']
        base = tag.split(':')[-1]
        if base not in by_tag or name not in ok['out_hashes'] or tag.startswith('u16:'):
            continue          # computed by the export ("new"), or an id table (values compared through `vals`)
        if tag == base:
            if ok['out_hashes'][name][:16] != base:
                return 'CORR: %s is not a byte-identical copy of the source file %s' % (name, by_tag[base])
        elif tag == 'squeeze:' + base:
            sm_, o = meta.get(by_tag[base]), ok['arrays'].get(name)
            if sm_ is None or 'flat' not in sm_ or o is None:
                continue
            if o['dtype'] != sm_['dtype'] or len(o['shape']) != 1 or _flat(np.array(o['vals'], dtype=object)) != sm_['flat']:
                return 'CORR: %s is not the squeezed copy of the source file %s (dtype %s/%s, shape %s)' % (
                    name, by_tag[base], o['dtype'], sm_['dtype'], o['shape'])
    return None


def _dir_entries(hashes, npy=None):
    out = []
    for name in sorted(hashes):
        e = dict(name=name, tag=hashes[name][:16])
        m = (npy or {}).get(name)
        if m is not None and m['shape']:
            e['rows'] = m['shape'][0]
            e['vec2d'] = len(m['shape']) == 2 and m['shape'][1] == 1
            if 'vals' in m and all(0 <= x for x in m['vals']):
                e['vals'] = m['vals']
        out.append(e)
    return out


def has_traces(case):
    return bool(case.get('spec') and case['spec'].get('raw'))


def _ood_query(case):
    """out-of-domain cases (the real conversion raises, so no source view was observed): the view and a minimal
    listing of the source directory are rebuilt from the dataset specification — used for the tally only"""
    sp = case['spec']
    st = sp['spike_templates']
    names = ['params.py', 'spike_times.npy', 'spike_templates.npy', 'spike_clusters.npy', 'channel_positions.npy',
             'templates.npy', 'amplitudes.npy', 'channel_map.npy'] + sorted(sp.get('extra_npy') or {})
    if sp.get('alf'):
        # ALF-named source: no spike_templates.npy / spike_clusters.npy under their KS names (the loader writes
        # spike_clusters.npy itself when the dataset has no cluster file)
        names = ['params.py'] + sorted(D.ALF_NAMES[k] for k in D.ALF_NAMES if sp.get(k) is not None) + \
            ([] if sp.get('spike_clusters') is not None else ['spike_clusters.npy']) + sorted(sp.get('extra_npy') or {})
    return dict(op='export', rate=DC.frac(sp['sample_rate']), n_amplitudes=len(st), samples=sp['spike_samples'],
                sc=sp.get('spike_clusters') or st, st=st, n_templates=len(sp['templates']), channel_map=sp['channel_map'],
                channel_probes=sp.get('channel_probes') or [0] * sp['n_channels'],
                **({'feat_rows': len(sp['pc_features'])} if sp.get('pc_features') is not None else {}),
                same_dir=False, force=False, label=case.get('label', ''), has_traces=has_traces(case),
                src=[dict(name=n, tag='x', rows=2) for n in names])


def model_query(case, impl_res):
    if case.get('twice'):
        return dict(p=PID, op='multi', qs=[])
    if case.get('ood'):
        return dict(p=PID, op='multi', qs=[_ood_query(case)])
    if 'ok' not in impl_res:
        return dict(p=PID, op='multi', qs=[])
    ok = impl_res['ok']
    sm = ok['src_model']
    ls = ok['listings']
    view = dict(rate=DC.frac(sm['sample_rate']), n_amplitudes=len(sm['amplitudes']),
                sc=sm['spike_clusters'], st=sm['spike_templates'], n_templates=sm['n_templates'],
                channel_map=sm['channel_mapping'], channel_probes=sm['channel_probes'])
    if sm.get('feat_rows') is not None:
        # rows of the feature store of the source model (fewer than spikes: pc_feature_spike_ids layout)
        view['feat_rows'] = sm['feat_rows']
    sec = ((case.get('spec') or {}).get('extra_npy') or {}).get('spikes.times.npy')
    if sec is not None:
        # the source gives its spike times in SECONDS (spikes.times.npy, no spike_times.npy): the times are an input
        # of the export, the samples are computed by the model (round half to even of times*rate)
        view['times_sec'] = [DC.frac(float(x)) for x in sec[1]]
    else:
        view['samples'] = sm['spike_samples']
    src = _dir_entries(ls[0]['hashes'], ls[0].get('npy'))
    qs = [dict(view, op='export', same_dir=False, force=bool(case.get('reexport')), label=case.get('label', ''),
               has_traces=has_traces(case), src=src, reexport=bool(case.get('reexport'))),
          dict(view, op='export', same_dir=True, force=False, label=case.get('label', ''), has_traces=has_traces(case), src=src),
          dict(op='frame', before=_dir_entries(ls[0]['hashes']), after=_dir_entries(ls[-1]['hashes']))]
    if ok['uuids'] is not None:
        qs.append(dict(view, op='uuids', impl_lines=ok['uuids']))
    # the channel map a reloaded model shows: raw indices re-expressed per probe (the C14 model of make_channel_objects)
    qs.append(dict(p='C14', op='rawind_direct', cm=sm['channel_mapping'], probes=sm['channel_probes']))
    return dict(p=PID, op='multi', qs=qs)


def _real_dims(ok):
    have = {}
    for name in ok['files']:
        if name in ok['arrays']:
            sh = ok['arrays'][name]['shape']
            have[name] = sh[0] if sh else None
        elif name.split('.')[0] == 'clusters' and name.split('.')[1] == 'uuids':
            have[name] = len(ok['uuids']) - 1
        else:
            have[name] = None
    return have


def judge(case, impl_res, ans):
    if 'err' in ans:
        return 'MACHINERY: driver error %s' % ans['err']
    if case.get('ood'):
        return None       # outside the quantifier: tallied only (see tally)
    if 'raised' in impl_res:
        return 'SPEC: ALF conversion raised %s (%s) at %s on an in-domain dataset' % (
            impl_res['raised'], impl_res['msg'], impl_res['where'])
    ok = impl_res['ok']
    if case.get('twice'):
        # the conversion is a function of the source (convertFS has no state): converting again with the same
        # creator must give what a freshly loaded model gives
        if ok['twice_diff']:
            return 'SPEC: a repeated conversion of the same model differs from the conversion of a freshly loaded model in %s' % (
                ok['twice_diff'][:6])
        return None
    sm = ok['src_model']
    label = case.get('label', '')
    res = ans['ok']['res']
    mod, refused, frame = res[0], res[1], res[2]
    # the model's own output must satisfy its theorems (export_first_dims, export_frame_decided, refusal_frame, export_succeeds)
    if not mod['rows_ok'] or not mod['frame_ok'] or refused['err'] != 'sameDir' or sorted(map(tuple, refused['src'])) != \
            sorted((e['name'], e['tag']) for e in _dir_entries(ok['listings'][0]['hashes'])):
        return 'MACHINERY: the Lean model contradicts its own theorems (rows_ok/frame_ok/refusal)'
    if mod['err'] is not None:
        return 'CORR: the model conversion raises %s, the real one returned' % mod['err']
    counts = mod['counts']              # computed by the Lean model from the source view (sizesOf)
    # refusal: every spelling of the source directory is refused and the listing afterwards is the one the model
    # computes for a refused conversion (the unchanged source)
    if ok['same_dir_refused'] is not True or not ok['src_after_refusal_unchanged'] or \
            sorted(map(tuple, refused['src'])) != sorted((n, h[:16]) for n, h in ok['listings'][1]['hashes'].items()):
        return 'SPEC: conversion into the source directory was not refused (or changed the source)'
    # first dimensions and labels of every object file of the REAL output
    have = _real_dims(ok)
    for name in ok['files']:
        parts = name.split('.')
        if parts[0] not in FAMILIES:
            continue
        stem = name[:-len(parts[-1]) - 1]                 # the name without its extension
        if label and not (stem.endswith('.' + label) and len(stem) - len(label) - 1 > len(parts[0])):
            return 'SPEC: label %r is not inserted before the extension of %s' % (label, name)
        if not label and len(parts) != 3:
            return 'SPEC: unexpected file name %s without a label' % name
        rows = have[name]
        if rows is not None and rows != counts[parts[0]]:
            return 'SPEC: %s has first dimension %s, expected %d (%s)' % (name, rows, counts[parts[0]], parts[0])
    if ok['uuids'] is None or len(res) < 4 or not res[3]['uuid_ok']:
        return 'SPEC: clusters.uuids does not hold one unique identifier per cluster'

    def arr(stem):
        return ok['arrays'].get(stem + ('.%s' % label if label else '') + '.npy')
    t, s = arr('spikes.times'), arr('spikes.samples')
    if t is None or s is None or t['vals'] != sm['spike_times'] or s['vals'] != sm['spike_samples']:
        return 'SPEC: spikes.times / spikes.samples are not the source times in seconds / samples'
    # times in seconds: the model's rationals — samples / rate (rounded once) for a source in samples, the source's own
    # times for a source in seconds, whose samples are round-half-even(times * rate)
    if max([abs(x) for x in s['vals']] or [0]) < 2 ** 53 and t['vals'] != [DC.to_float(q) for q in mod['times']]:
        return 'SPEC: spikes.times is not %s' % ('the spike times of the source (given in seconds)' if 'spikes.times.npy' in (
            (case.get('spec') or {}).get('extra_npy') or {}) else 'spikes.samples divided by the sampling rate')
    if s['vals'] != mod['samples']:
        return 'SPEC: spikes.samples is not the samples of the source (round(times*rate) for a source in seconds)'
    # round trip
    for who in ('fresh', 'ret'):
        r = ok.get(who)
        if r is None:
            return 'SPEC: conversion returned no model' if who == 'ret' else 'SPEC: output cannot be loaded'
        for key in ('spike_times', 'spike_samples', 'spike_clusters', 'spike_templates', 'channel_positions'):
            if r[key] != sm[key]:
                return 'SPEC: %s of the %s model differs from the source' % (key, 'returned' if who == 'ret' else 'reloaded')
        if len(set(sm['channel_probes'])) == 1 and r['channel_mapping'] != sm['channel_mapping']:
            return 'SPEC: channel map of the %s model differs from the source (single probe)' % who
        if not case.get('probes') and r['channel_mapping'] != res[-1]['model']:
            # several probes in one dataset: the exported raw indices are the source's, counted from each probe's start
            return ('SPEC: channel map of the %s model %s is not the source map re-expressed per probe %s' % (
                who, r['channel_mapping'], res[-1]['model']))
    # frame of the whole conversion, decided by the Lean executable on the two real listings
    if not frame['frame_ok']:
        return 'SPEC: source directory not preserved by the conversion: changed/added/removed %s%s' % (
            [f for f in ok['src_changed'] if f not in SUBSET and f != 'temp_wh.dat'],
            ', temp_wh.dat not deleted' if 'temp_wh.dat' in ok['listings'][-1]['hashes'] else '')
    # ---- correspondence: the directories computed by the model against the real ones ----
    after = ok['listings'][-1]['hashes']
    msrc = dict((n, tg) for n, tg in mod['src'])
    if set(msrc) != set(after):
        return 'CORR: source directory after the conversion: model %s, real %s' % (
            sorted(set(msrc) - set(after)), sorted(set(after) - set(msrc)))
    for n, tg in msrc.items():
        if n not in SUBSET and after[n][:16] != tg:
            return 'CORR: source file %s: the model says unchanged, the real bytes differ' % n
    mout = {e['name']: e for e in mod['out']}
    for name, e in mout.items():
        if name not in have:
            return 'CORR: the model writes %s, the real output directory has no such file' % name
        if have[name] is not None and e['dim'] != have[name] and name.split('.')[0] in FAMILIES:
            return 'CORR: model expects %s with %d rows, output has %s' % (name, e['dim'], have[name])
        if e['vals'] is not None and name in ok['arrays'] and ok['arrays'][name]['vals'] != e['vals']:
            return 'CORR: values of %s differ from the model (%s)' % (name, e['tag'])
        if name in ok['arrays'] and e['tag'].startswith('u16:') and ok['arrays'][name]['dtype'] != 'uint16':
            return 'CORR: %s has dtype %s, the model tag is %s' % (name, ok['arrays'][name]['dtype'], e['tag'])
    for name in have:
        if name.split('.')[0] in FAMILIES and name not in mout:
            return 'CORR: the real output holds the object file %s that the model does not write' % name
    why = _copied_content(ok, mod)
    if why:
        return why
    # the C04 loader model applied to the WHOLE model output directory (`project`, theorem convert_output_loads) against
    # the real reload of the real output directory: it loads, and shows the same samples and id tables
    rl = mod.get('reload')
    if rl is not None:
        if rl.get('err') is not None:
            return 'CORR: the loader model fails on the projected model output (%s), the real output loads' % rl['err']
        fr = ok['fresh']
        for key, mk in (('spike_samples', 'samples'), ('spike_clusters', 'sc'), ('spike_templates', 'st')):
            stem = {'samples': 'spikes.samples', 'sc': 'spikes.clusters', 'st': 'spikes.templates'}[mk]
            e = mout.get(stem + ('.%s' % label if label else '') + '.npy')
            if e is not None and e['vals'] is not None and rl[mk] != fr[key]:
                return 'CORR: %s of the reloaded real output differs from the loader model on the projected model output' % key
        if rl['n_times'] != len(fr['spike_times']) or rl['n_channels'] != len(fr['channel_mapping']) or not rl['has_templates']:
            return 'CORR: loader model on the projected output: %d times, %d channels, templates %s; real reload %d, %d' % (
                rl['n_times'], rl['n_channels'], rl['has_templates'], len(fr['spike_times']), len(fr['channel_mapping']))
        if not case.get('probes') and (rl['channel_map'] != fr['channel_mapping'] or rl['channel_map_shape'] != [len(fr['channel_mapping'])]):
            # theorem convert_output_loads: the loader model shows vec (C14.exportRawInd channelMap channelProbes)
            return 'CORR: channel map of the reloaded real output %s differs from the loader model on the projected model output %s (shape %s)' % (
                fr['channel_mapping'], rl['channel_map'], rl['channel_map_shape'])
    # the file table of Model/C13.lean (theorem export_table_written)
    for name, rows in mod['table']:
        if have.get(name) != rows:
            return 'CORR: table expects %s with %d rows, output has %s' % (name, rows, have.get(name))
    if not case.get('probes') and not res[-1]['ordered']:
        # a SINGLE dataset whose probe labels are not non-decreasing along the channel map: the reloaded channel map holds
        # NEGATIVE raw indices (C14 model of make_channel_objects). Not accepted silently: reported under a narrow class
        # (open finding) after every other clause was judged
        return ('SPEC: channel map of the reloaded model %s holds negative raw indices: probe labels %s of the source are not in '
                'channel-map order %s (single dataset)' % (ok['fresh']['channel_mapping'], sm['channel_probes'], sm['channel_mapping']))
    return None


def nontrivial(case):
    return True


def tally(rep, case, impl_res, ans):
    if case.get('twice'):
        rep.count('same creator converts %d times (labels %s, factors %s)' % (
            len(case['twice']), [x[0] for x in case['twice']], [x[1] for x in case['twice']]))
        return
    if 'spikes.times.npy' in ((case.get('spec') or {}).get('extra_npy') or {}):
        rep.count('source spike times in seconds (sub-sample precision), rate %s' % case['spec']['sample_rate'])
    if case.get('ood'):
        res = (ans.get('ok') or {}).get('res') or []
        rep.count('out-of-domain %s: real %s, model %s' % (
            case['ood'], impl_res.get('raised', 'returned'), res[0]['err'] if res else 'not asked'))
        return
    if case.get('spec') and case['spec']['n_channels'] == 1:
        rep.count('single_channel_dataset')
    if case.get('spec'):
        rep.count('positions_dtype:' + (case['spec'].get('dtypes') or {}).get('channel_positions', 'float64'))
        opt = sorted(n for n in (case['spec'].get('extra_npy') or {}) if n.split('.')[0] in (
            'channel_labels', 'cluster_shanks', 'cluster_probes', 'drift', 'drift_depths'))
        if opt:
            rep.count('optional source tables: ' + ','.join(opt))
    rep.count('label:%r' % case.get('label', ''))
    if case.get('reexport'):
        rep.count('re-export over a stale output directory')
    rep.count('merged' if case.get('probes') else 'single')
    rep.count('label:%s' % bool(case.get('label')))
    if not case.get('probes'):
        s = case['spec']
        r_ = ((ans.get('ok') or {}).get('res') or [{}])[-1]
        if 'ordered' in r_ and len(set(s.get('channel_probes') or [])) > 1:
            rep.count('reloaded channel map of a single dataset with several probes: ' + (
                'labels in channel-map order, judged = per-probe re-expression' if r_['ordered'] else
                'labels NOT in channel-map order -> negative raw index, reported as open finding (not accepted)'))
        if s.get('amplitudes') is None:
            rep.count('no amplitudes.npy')
        rep.count('curated:%s' % (s.get('spike_clusters') is not None))
        rep.count('raw:%s' % bool(s.get('raw')))
        rep.count('features:%s' % ('subset of the spikes' if s.get('pc_feature_spike_ids') is not None else s.get('pc_features') is not None))
        rep.count('vec2d:%s' % bool(s.get('vec2d')))


def classify(case, impl_res, ans, why):
    if why.startswith('SPEC: channel map of the reloaded model') and 'not in channel-map order' in why:
        return dict(kind='SPEC', site='make_channel_objects', probe_labels='not in channel-map order',
                    observed='negative raw index', merged=False)
    cls = dict(kind=why.split(':')[0], what=why.split(':')[1].strip()[:40], merged=bool(case.get('probes')),
               label=bool(case.get('label')), raised=impl_res.get('raised'), where=impl_res.get('where'))
    if case.get('spec') and case['spec'].get('amplitudes') is None:
        # a dataset WITHOUT amplitudes.npy (optional for the loader): narrow class for the open finding
        cls.update(no_amplitudes=True, where_file=(impl_res.get('where') or '').split(':')[0])
        del cls['where']
    return cls


def _n_clusters(spec):
    sc = spec.get('spike_clusters')
    if sc is None or list(sc) == list(spec['spike_templates']):
        return len(spec['templates'])
    return max(sc) + 1


def _seconds_layout(spec, i):
    """Turn the source into one that gives its spike times in SECONDS with sub-sample precision: no spike_times.npy
    but spikes.times.npy holding (k + f)/rate, f in {.25, .75, 0, .5}; exact .5 ties with a power-of-two rate.
    Kept only when the float product times*rate rounds (half to even) to the integer the exact product rounds to."""
    ks = spec['spike_samples']
    rate = [1024., 32768., spec['sample_rate'], 4096.][(i // 8) % 4]
    fr = [0.25, 0.75, 0.5, 0.0, 0.5]
    times = sorted((k + (fr[(j + i) % 5] if j + 1 < len(ks) else 0.25)) / rate for j, k in enumerate(ks))
    for t in times:
        if round(Fraction(float(t)) * Fraction(rate)) != int(np.round(np.float64(t) * rate)):
            return
    spec['sample_rate'] = rate
    spec['spike_samples'] = None
    spec['extra_npy'] = dict(spec.get('extra_npy') or {}, **{'spikes.times.npy': ('float64', [float(t) for t in times])})


def gen(tier, rng):
    q = tier == 'quick'
    for i in range(400 if q else 4000):
        if i % 6 == 5:
            c = M.merge_case(rng, nprobes=2 + i % 2)
            yield dict(p=PID, probes=c['probes'], dirnames=c['dirnames'], factor=1, label=['', 'probe01'][i % 2])
            continue
        huge = not q and i in (8, 1508)
        # (the exporter recomputes the peak channels of ALL clusters once per cluster id, so a dataset with ids
        # beyond 32767 costs time quadratic in the largest id: such datasets are kept narrow and short)
        spec = DC.dense_spec(rng, raw=(i % 3 != 2), feats=(i % 2 == 0) and i % 23 != 3, probes=(i % 5 == 0), empty=['none', 'last', 'middle', 'first'][i % 4],
                             cmap=['identity', 'random'][i % 2], nc=(2 if huge else 1 if i % 23 == 3 else None),      # also single-channel datasets
                             nsw=(2 if huge else None))
        if i % 4 == 1:
            spec['text_files'] = {'cluster_KSLabel.tsv': 'cluster_id\tKSLabel\n0\tgood\n1\tmua\n'}
        if i % 7 == 3:
            spec['vec2d'] = True
        if i % 3 == 1:     # probe coordinates stored as integers
            spec['dtypes'] = dict(spec.get('dtypes') or {}, channel_positions=['int32', 'uint32', 'int64', 'uint16'][(i // 3) % 4])
        if i % 50 == 7 or huge:
            # large cluster ids (beyond 255; in the thorough tier beyond 32767): the exported id tables are uint16
            big = 300 if i % 50 == 7 else 33000
            sc_ = list(spec.get('spike_clusters') or spec['spike_templates'])
            sc_[0] = big
            sc_[-1] = big - 1
            spec['spike_clusters'] = sc_
        if i % 9 == 4:
            # the other optional source tables copy_files renames into object files, and the drift files
            nc_, ncl_ = spec['n_channels'], _n_clusters(spec)
            extra = {'channel_labels.npy': ('int32', [k % 3 for k in range(nc_)]),
                     'cluster_shanks.npy': ('int32', [k % 2 for k in range(ncl_)]),
                     'drift_depths.um.npy': ('float64', [10., 20.]), 'drift.times.npy': ('float64', [0., 1., 2.]),
                     'drift.um.npy': ('float64', [[0., 1.], [1., 0.], [2., 2.]])}
            if i % 18 == 4:
                extra['cluster_probes.npy'] = ('int32', [0] * ncl_)
            spec['extra_npy'] = dict(spec.get('extra_npy') or {}, **extra)
        if i % 8 == 6:
            _seconds_layout(spec, i)
        if i % 16 == 4:
            # features stored for a subset of the spikes (pc_feature_spike_ids.npy): get_depths() gives nothing
            A.subset_features(rng, spec)
        # labels incl. ones that occur inside ALF file names or look like extensions
        label = ['', 'probe00', '', 'a', 'raw', '', 'amps', 'npy', 'spikes', 'x.y', 'clusters'][i % 11]
        if i == 57:
            # no amplitudes.npy (optional for the loader): spikes.amps / templates.amps / clusters.amps have no defined value
            spec['amplitudes'] = None
        if i == 76:
            # OUTSIDE the quantifier (tallied, never an alarm): a source that is ALREADY ALF-named (spikes.clusters.npy ...);
            # convert() documents "from KS/phy format", its rename table is keyed by the KS names
            spec['alf'] = True
            spec.pop('extra_npy', None)
            yield dict(p=PID, spec=spec, factor=1, label='', rs=i, ood='ALF-named source')
            continue
        if i in (33, 211):
            # OUTSIDE the quantifier (tallied, never an alarm): a source that already holds an ALF cluster table,
            # a label with a path separator
            if i == 33:
                spec['extra_npy'] = dict(spec.get('extra_npy') or {}, **{'clusters.channels.npy': ('int64', [0] * _n_clusters(spec))})
                yield dict(p=PID, spec=spec, factor=1, label='', temp_wh=True, rs=i, ood='source with clusters.channels.npy')
            else:
                yield dict(p=PID, spec=spec, factor=1, label='a/b', temp_wh=True, rs=i, ood='label a/b')
            continue
        if i % 20 == 9:
            # the same creator / the same loaded model converted two or three times, with a non-identity whitening
            # matrix, other labels and other unit factors
            spec2 = DC.dense_spec(rng, raw=(i % 4 == 1), feats=(i % 20 == 9), whiten=rng.pick(['diag', 'tri', 'tri+inv', 'diag+inv']),
                                  curated=(i % 3 == 0))
            yield dict(p=PID, spec=spec2, rs=i, twice=[[['', 1], ['probe00', 1]], [['', 1], ['', 2.5]], [['a', 2.5], ['b', 1], ['a', 2.5]]][(i // 7) % 3])
            continue
        # every 7th plain case converts into src/alf (the target INSIDE the source directory)
        yield dict(p=PID, spec=spec, factor=[1, 2.5][i % 2], label=label, temp_wh=(i % 4 == 0), rs=i,
                   reexport=(i % 5 == 2 and label == ''), out_inside=(i % 7 == 2))
