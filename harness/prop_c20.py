"""C20 — no download reported successful with a file failing its checksum (DESIGN.md §5 C20).

"HTTP error" of the statement is served as 404 in the exhaustive space and as every status of STATUSES (4xx / 5xx) on
the data URL and on the checksum URL (`dstatus` / `sstatus` / `errpage` of a case); the Lean model of `_download`
(dataOfStatus / sumOfStatus) reads the statuses that are served."""
import hashlib
import itertools
from . import common as C

PID = 'C20'
PARALLEL = True
BATCH = 600
BUDGET_S = {'quick': 90, 'thorough': 900}
RULE = ('exhaustive: prior file {absent, valid, corrupt} x all data-URL scripts of length <= 3 over '
        '{good, corrupt, 404} x all checksum-URL scripts of length <= 3 over {correct, checksum of the '
        'corrupt body, garbage, missing}, served by the in-process `responses` mock; thorough adds '
        'length-4 scripts, bodies of 0 B / 1 B / > 1 MiB, checksum files with and without a trailing '
        'file name. file name, non-hex and non-UTF-8 checksum files, size probes (HEAD) answered in seven ways; a part of the scripted space is also served by a real HTTP server on the loopback interface with Content-Encoding: gzip and with the data URL answering by a redirect. '
        'Whitespace layouts of the checksum file: a sixth of the scripted space is run once more with every 200 answer '
        'of the checksum URL laid out as <lead><md5><separator+name><trail> (lead: none / space(s) / TAB / blank line; '
        'separator: two spaces, one space, space+*, TAB, none; trail: none / LF / CRLF / space+LF / two LF), and a part of '
        'those with "checksum unavailable" served as a 200 answer holding an empty or whitespace-only text; the texts '
        'really served are parsed by the Lean model of `text.split()[0]` (firstField / parseSum) for the prediction; half of '
        'the layout cases publish the digest in UPPER or MiXeD letter case (a correct checksum: hexadecimal numerals), files that do '
        'not start with the digest (BOM, BSD form, backslash-escaped line) are outside the statement and not generated. '
        '"HTTP error" is every client / server error status, not the one number 404: each of 400, 401, 403, 410, 429, 500, 502, 503 '
        'is served systematically on the data URL (first request, retry) for every state of the checksum URL, and on the checksum URL '
        '(pre-check, either verification), and a sixth of the scripted cases holding an error runs once more with one such status per '
        'request position and URL; error pages: short text, HTML, empty, a text that looks like a checksum line; the statuses that are '
        'served are read by the Lean model of `_download` (dataOfStatus / sumOfStatus); 1xx / 3xx / other 2xx are no behaviour of the '
        'statement and not generated. An exception of the call other than '
        'HTTPError/RuntimeError is an outcome (judged on the request log and the file, CORR against the model), not an alarm by itself. '
        'non-trivial = at least one data request was made or the pre-check ran')
ASSUMPTIONS = ['requests / streaming / hashlib.md5 are outside the model (bodies and checksums are tokens, '
               'hash = identity in the driver; the theorems hold for every hash function)',
               'an exhausted script answers 404, in the mock as in the model']

URL = 'http://phyverif.test/data.bin'


def _bodies(case):
    kind = case.get('body', 'normal')
    if kind == 'empty':
        return {1: b'', 2: b'x'}
    if kind == 'one':
        return {1: b'a', 2: b'b'}
    if kind == 'big':
        return {1: b'g' * (2 ** 20 + 17), 2: b'g' * (2 ** 20 + 16) + b'h'}
    return {1: b'good-body-' * 300, 2: b'corrupt!!!' * 300}


def _md5s(case):
    md5 = {k: hashlib.md5(v).hexdigest() for k, v in _bodies(case).items()}
    md5[9] = 'f' * 32
    return md5


# whitespace layouts of a checksum file: <lead><md5><separator + name><trail>
LEADS = ['', ' ', '\t', '\n', '  ', '\r\n', ' \t ']
MIDS = ['  data.bin', '', ' *data.bin', '\tdata.bin', ' data.bin', '  sub dir/data.bin']
TRAILS = ['\n', '', '\r\n', ' \n', '\n\n']
BLANKS = ['', ' \n', '\n', ' ', '\t\r\n']


def _lettercase(digest, how):
    """The same hexadecimal numeral in the other letter case (certutil / Get-FileHash publish upper case)."""
    if how == 'upper':
        return digest.upper()
    if how == 'mixed':
        return ''.join(c.upper() if i % 2 else c for i, c in enumerate(digest))
    return digest


def _sum_answer(case, s, md5):
    """What the checksum URL answers for script token `s`: None = 404, else (headers, text or bytes). One function for
    the mock, the loopback server and the query to the Lean model (which parses the very text that is served)."""
    if s == 0:
        if case.get('blank') is not None:
            # "checksum unavailable" as a 200 answer that holds no field at all
            return ({}, case['blank'])
        return None
    # the checksum file as md5sum writes it, bare, or bare with a trailing newline
    if s == 9 and case.get('wrongfmt') == 'nonhex':
        # a published checksum that is not even hexadecimal (another tool's output format): a mismatch
        return ({}, 'MD5(data.bin)= ' + md5[1] + '\n')
    # NOT generated, on purpose: files that do not START with the digest (UTF-8 byte-order mark first, BSD `MD5 (f) = h`
    # with the file's real digest, md5sum's backslash-escaped line). The statement only knows correct / wrong / unavailable
    # and such a file is neither clearly: the code documents `<md5>[  <name>]`, md5sum -c itself rejects a BOM, and what
    # `requests` makes of a BOM depends on the Content-Type (kept as 'ï»¿' for text/plain, stripped by the charset
    # detection when there is no Content-Type) - a reader that accepts it and one that reports a mismatch both keep the
    # property (no normal return with a bad file either way).
    if case.get('layout') is not None:
        lead, mid, trail = case['layout']
        return ({}, lead + _lettercase(md5[s], case.get('digestcase')) + mid + trail)
    if case.get('sumfmt') == 'latin1_name':
        # md5sum line whose file name is not valid UTF-8
        return ({'Content-Type': 'text/plain'}, md5[s].encode() + b'  donn\xe9es.bin\n')
    tail = {'name': '  data.bin\n', 'bare': '', 'bare_nl': '\n', 'bare_crlf': '\r\n'}[
        case.get('sumfmt') or ('name' if case.get('with_name', True) else 'bare')]
    return ({}, md5[s] + tail)


# "HTTP error" of the statement: every client / server error status, not the one number 404
STATUSES = [400, 401, 403, 410, 429, 500, 502, 503]
ERRPAGES = {'plain': b'not found', 'html': None, 'empty': b'', 'digest': None}


def _err_status(case, which, i):
    """The status with which request number `i` (0-based) to the data / checksum URL is answered when the script says
    "HTTP error" there: `dstatus` / `sstatus` are cycled over the request positions; absent = 404."""
    st = case.get(which) or [404]
    return int(st[i % len(st)])


def _err_page(case, status, md5):
    """The body of an error answer: a short text, an HTML page, nothing - or, 'digest', the digest of the good body
    (a server whose error pages echo something that looks like a checksum: still an HTTP error, never a checksum)."""
    kind = case.get('errpage', 'plain')
    if kind == 'html':
        return b'<html><body>error %d</body></html>' % status
    if kind == 'digest':
        return md5[1].encode() + b'  data.bin\n'
    return ERRPAGES[kind]


def _data_answer(case, i, d, bodies, md5):
    """What the data URL answers to request number `i` for script token `d`: (status, headers, bytes). One function for
    the mock, the loopback server and the query to the Lean model (`dataOfStatus` reads the status that is served)."""
    if d == 0:
        status = _err_status(case, 'dstatus', i)
        return (status, {}, _err_page(case, status, md5))
    if case.get('encoding') == 'gzip':
        # the server compresses the transfer (Content-Encoding: gzip), as most web servers and CDNs do: the body the
        # client has to store is the decoded one
        import gzip
        return (200, {'Content-Encoding': 'gzip'}, gzip.compress(bodies[d]))
    return (200, {}, bodies[d])


def _sum_full_answer(case, i, s, md5):
    """What the checksum URL answers to request number `i` for script token `s`: (status, headers, text or bytes)."""
    a = _sum_answer(case, s, md5)
    if a is None:
        status = _err_status(case, 'sstatus', i)
        return (status, {}, _err_page(case, status, md5))
    return (200, a[0], a[1])


def _sumfmt(case):
    if case.get('layout') is not None:
        return 'layout'
    return case.get('sumfmt') or ('name' if case.get('with_name', True) else 'bare')


def impl(case):
    import responses
    import requests
    from phylib.io import datasets as DS
    from phylib.utils import event as EV
    bodies = _bodies(case)
    md5 = _md5s(case)
    ds, ss = list(case['ds']), list(case['ss'])
    log = []

    served = []
    n_req = {'data': 0, 'sum': 0}

    def data_cb(request):
        log.append('data')
        i = n_req['data']
        n_req['data'] += 1
        if not ds:
            served.append(['data', 404])
            return (404, {}, b'not found')       # exhausted script (ASSUMPTIONS)
        a = _data_answer(case, i, ds.pop(0), bodies, md5)
        served.append(['data', a[0]])
        return a

    def sum_cb(request):
        log.append('sum')
        i = n_req['sum']
        n_req['sum'] += 1
        if not ss:
            served.append(['sum', 404])
            return (404, {}, 'not found')        # exhausted script (ASSUMPTIONS)
        a = _sum_full_answer(case, i, ss.pop(0), md5)
        served.append(['sum', a[0]])
        return a
    if case.get('server'):
        return _impl_server(case, bodies, md5, data_cb, sum_cb, log, served)
    with C.scratch_dir() as d:
        path = d / 'data.bin'
        if case['prior'] is not None:
            path.write_bytes(bodies[case['prior']])
        EV.reset()
        with responses.RequestsMock(assert_all_requests_are_fired=False) as rsps:
            rsps.add_callback(responses.GET, URL, callback=data_cb)
            rsps.add_callback(responses.GET, URL + '.md5', callback=sum_cb)
            head = case.get('head', 'none')
            if head != 'none':
                # how the server answers the size probe (HEAD); 'none' = not answered at all
                def head_cb(request):
                    log.append('head')
                    if head in ('403', '501'):
                        return (int(head), {}, b'')
                    n = len(bodies[1])
                    hdr = {'ok': {'Content-Length': str(n)}, 'ok_nolen': {},
                           'short_len': {'Content-Length': str(n // 3)}, 'long_len': {'Content-Length': str(n * 5)}}[head]
                    return (200, hdr, b'')
                rsps.add_callback(responses.HEAD, URL, callback=head_cb)
            try:
                ret = DS.download_file(URL, str(path) if case.get('pathkind') == 'str' else path)
                result = 'skipped' if ret is not None else 'done'
                if ret is not None and str(ret) != str(path):
                    result = 'returned:%r' % (ret,)
            except requests.exceptions.HTTPError:
                result = 'http_error'
            except RuntimeError:
                result = 'mismatch'
            except Exception as e:  # noqa: any other exception: the call did not return normally
                result = 'raised:%s' % type(e).__name__
        EV.reset()
        content = path.read_bytes() if path.exists() else None
        second = None
        if result in ('skipped', 'done') and content is not None:
            # theorem second_call_is_noop: a second call in a row, against a server that publishes the checksum of the file
            # the first call left and whose data URL is now down, returns early without any data request
            log2 = []

            def data2_cb(request):
                log2.append('data')
                return (503, {}, b'down')

            def sum2_cb(request):
                log2.append('sum')
                return (200, {}, hashlib.md5(content).hexdigest() + '  data.bin\n')
            with responses.RequestsMock(assert_all_requests_are_fired=False) as rsps2:
                rsps2.add_callback(responses.GET, URL, callback=data2_cb)
                rsps2.add_callback(responses.GET, URL + '.md5', callback=sum2_cb)
                try:
                    ret2 = DS.download_file(URL, path)
                    res2 = 'skipped' if ret2 is not None else 'done'
                except Exception as e:  # noqa
                    res2 = 'raised:%s' % type(e).__name__
            EV.reset()
            second = dict(result=res2, n_data=log2.count('data'),
                          unchanged=path.exists() and path.read_bytes() == content)
            if len(content) > 0 and path.exists():
                # third call in the same process: the file was overwritten in between by a body of the SAME size with its
                # timestamps put back (a prior state like any other: "every prior state of the target file"); the server
                # still publishes the checksum of the good content and serves it.  A normal return must leave the
                # good content; nothing remembered from the earlier calls may vouch for the file.
                import os
                st_ = os.stat(path)
                bad = bytes([content[0] ^ 0x5a]) + content[1:]
                path.write_bytes(bad)
                os.utime(path, ns=(st_.st_atime_ns, st_.st_mtime_ns))
                log3 = []

                def data3_cb(request):
                    log3.append('data')
                    return (200, {}, content)

                def sum3_cb(request):
                    log3.append('sum')
                    return (200, {}, hashlib.md5(content).hexdigest() + '  data.bin\n')
                with responses.RequestsMock(assert_all_requests_are_fired=False) as rsps3:
                    rsps3.add_callback(responses.GET, URL, callback=data3_cb)
                    rsps3.add_callback(responses.GET, URL + '.md5', callback=sum3_cb)
                    try:
                        ret3 = DS.download_file(URL, path)
                        res3 = 'skipped' if ret3 is not None else 'done'
                    except Exception as e:  # noqa
                        res3 = 'raised:%s' % type(e).__name__
                EV.reset()
                second['third'] = dict(result=res3, n_data=log3.count('data'),
                                       good=path.exists() and path.read_bytes() == content)
    tok = None
    if content is not None:
        tok = [k for k, v in bodies.items() if v == content]
        tok = tok[0] if tok else -1
    n_head = log.count('head')
    log = [x for x in log if x != 'head']
    return dict(result=result, file=tok, log=log, n_head=n_head, served=served, second=second,
                file_md5=hashlib.md5(content).hexdigest() if content is not None else None,
                md5={str(k): v for k, v in md5.items()})


def _impl_server(case, bodies, md5, data_cb, sum_cb, log, served):
    """The same scripted server behaviours served by a real HTTP server on the loopback interface (the `responses` mock
    hands the client an already decoded stream, so a compressed transfer cannot be told from a plain one there)."""
    import threading
    import requests
    from http.server import BaseHTTPRequestHandler, ThreadingHTTPServer
    from phylib.io import datasets as DS
    from phylib.utils import event as EV
    head = case.get('head', 'none')

    class H(BaseHTTPRequestHandler):
        protocol_version = 'HTTP/1.1'

        def log_message(self, *a):  # noqa
            pass

        def _send(self, status, headers, body, with_body=True):
            if isinstance(body, str):
                body = body.encode()
            self.send_response(status)
            for k, v in headers.items():
                self.send_header(k, v)
            if 'Content-Length' not in headers:
                self.send_header('Content-Length', str(len(body)))
            self.end_headers()
            if with_body:
                self.wfile.write(body)

        def do_GET(self):  # noqa
            if case.get('redirect') and self.path == '/data.bin':
                # the documented URL redirects to where the file is stored (mirror / CDN); the checksum is published next
                # to the DOCUMENTED URL only
                self._send(302, {'Location': '/store/0a1b2c/data.bin'}, b'')
            elif self.path.startswith('/store/') and self.path.endswith('.md5'):
                self._send(404, {}, b'not found')
            elif self.path.endswith('.md5'):
                self._send(*sum_cb(None))
            else:
                self._send(*data_cb(None))

        def do_HEAD(self):  # noqa
            if case.get('redirect') and self.path == '/data.bin':
                self._send(302, {'Location': '/store/0a1b2c/data.bin'}, b'', with_body=False)
                return
            log.append('head')
            if head in ('none', '403', '501'):
                self._send(int(head) if head != 'none' else 405, {}, b'', with_body=False)
                return
            n = len(bodies[1])
            hdr = {'ok': {'Content-Length': str(n)}, 'ok_nolen': {'Content-Length': '0'},
                   'short_len': {'Content-Length': str(n // 3)}, 'long_len': {'Content-Length': str(n * 5)}}[head]
            self._send(200, hdr, b'', with_body=False)

    try:
        srv = ThreadingHTTPServer(('127.0.0.1', 0), H)
    except OSError as e:          # no loopback interface in this sandbox: not a statement about the code
        return dict(skipped='loopback unavailable: %s' % e)
    th = threading.Thread(target=srv.serve_forever, daemon=True)
    th.start()
    url = 'http://127.0.0.1:%d/data.bin' % srv.server_address[1]
    try:
        with C.scratch_dir() as d:
            path = d / 'data.bin'
            if case['prior'] is not None:
                path.write_bytes(bodies[case['prior']])
            EV.reset()
            try:
                ret = DS.download_file(url, str(path) if case.get('pathkind') == 'str' else path)
                result = 'skipped' if ret is not None else 'done'
                if ret is not None and str(ret) != str(path):
                    result = 'returned:%r' % (ret,)
            except requests.exceptions.HTTPError:
                result = 'http_error'
            except RuntimeError:
                result = 'mismatch'
            except Exception as e:  # noqa: any other exception: the call did not return normally
                result = 'raised:%s' % type(e).__name__
            EV.reset()
            content = path.read_bytes() if path.exists() else None
    finally:
        srv.shutdown()
        srv.server_close()
    tok = None
    if content is not None:
        tok = [k for k, v in bodies.items() if v == content]
        tok = tok[0] if tok else -1
    n_head = log.count('head')
    log2 = [x for x in log if x != 'head']
    return dict(result=result, file=tok, log=log2, n_head=n_head, served=served,
                file_md5=hashlib.md5(content).hexdigest() if content is not None else None,
                md5={str(k): v for k, v in md5.items()})


def judge(case, impl_res, ans):
    if 'err' in ans:
        return 'MACHINERY: driver error %s' % ans['err']
    if 'ok' in impl_res and impl_res['ok'].get('skipped'):
        return None
    m = ans['ok']
    if 'raised' in impl_res:
        # an exception OUTSIDE the download_file call (every exception of the call itself is an outcome, see impl): either
        # my scaffolding (scratch directory, mock, server) or the emitter reset of the real code; no clause of the statement
        # speaks about it
        if impl_res.get('where'):
            return 'CORR: the real code raised %s (%s) at %s outside the download call' % (
                impl_res['raised'], impl_res['msg'], impl_res['where'])
        return 'MACHINERY: the scaffolding raised %s (%s)' % (impl_res['raised'], impl_res['msg'])
    ok = impl_res['ok']
    if m.get('ss') != list(case['ss']):
        # the Lean parse (firstField / parseSum) of the texts that were served disagrees with what the generator meant
        # them to publish: my layouts or my model of str.split() are wrong, nothing about the real code
        return 'MACHINERY: the served checksum texts parse to %s in the model, the generator meant %s' % (
            m.get('ss'), case['ss'])
    if m.get('ds') != list(case['ds']):
        # the Lean model of `_download` (dataOfStatus) reads the statuses that were served differently from what the
        # generator meant (body / HTTP error): my statuses are outside 200 / 4xx / 5xx, nothing about the real code
        return 'MACHINERY: the served data statuses read as %s in the model, the generator meant %s' % (
            m.get('ds'), case['ds'])
    # the property itself, on the real outcome
    returned = ok['result'] in ('skipped', 'done')
    sums = [i for i, r in enumerate(ok['log']) if r == 'sum']
    # which checksum answer did the last checksum request get? replay the script
    n_sum = len(sums)
    last = case['ss'][n_sum - 1] if 0 < n_sum <= len(case['ss']) else 0
    if returned and last != 0:
        if ok['file_md5'] != ok['md5'][str(last)]:
            return 'SPEC: returned normally but the file MD5 differs from the published checksum'
    if ok['log'].count('data') > 2:
        return 'SPEC: more than one retry'
    n_data = ok['log'].count('data')
    if returned and any(d == 0 for d in case['ds'][:n_data]) or (returned and n_data > len(case['ds'])):
        return 'SPEC: an HTTP error on a data request did not raise'
    other_exc = ok['result'].startswith('raised:')
    if case['prior'] is not None and case['ss'] and case['ss'][0] == case['prior'] and \
            (n_data != 0 or (ok['result'] != 'skipped' and not other_exc) or ok['file'] != case['prior']):
        return 'SPEC: a valid existing file was downloaded again'
    sec = ok.get('second')
    if sec is not None and (sec['n_data'] != 0 or not sec['unchanged'] or
                            (sec['result'] != 'skipped' and not sec['result'].startswith('raised:'))):
        # theorem second_call_is_noop (valid_existing_not_refetched in the state the first call left)
        return ('SPEC: a valid existing file was downloaded again (second call in a row against a server publishing the '
                'checksum of the file the first call left: result %s, %d data request(s), file %s)' % (
                    sec['result'], sec['n_data'], 'unchanged' if sec['unchanged'] else 'CHANGED'))
    th = (sec or {}).get('third')
    if th is not None and th['result'] in ('skipped', 'done') and not th['good']:
        # main clause, in the state a history of calls left: normal return, checksum available, file MD5 != published
        return ('SPEC: returned normally but the file MD5 differs from the published checksum (third call in a row; the file '
                'had been overwritten by a corrupt body of the same size and timestamps: result %s, %d data request(s))' % (
                    th['result'], th['n_data']))
    if ok['result'] != m['result'] or ok['file'] != m['file'] or ok['log'] != m['log']:
        # an exception of another type than HTTPError / RuntimeError: the statement forbids normal returns (with a bad
        # file, after an HTTP error, after a persistent mismatch), re-downloading a valid file and a second retry - all
        # judged above on the request log and the file; a raise as such violates no clause, it only differs from the model
        if ok['result'] != m['result'] and not other_exc and \
                {ok['result'], m['result']} & {'mismatch', 'http_error'}:
            return 'SPEC: outcome %s, expected %s (retry/raise logic)' % (ok['result'], m['result'])
        return 'CORR: outcome/file/request log differ from the model: %s vs %s' % (
            [ok['result'], ok['file'], ok['log']], [m['result'], m['file'], m['log']])
    return None


def model_query(case, impl_res):
    # the model is given what the checksum URL really sends (the same `_sum_answer` the servers use) and parses it itself
    md5 = _md5s(case)
    bodies = _bodies(case)
    answers, sstat = [], []
    for i, s in enumerate(case['ss']):
        status, _, t = _sum_full_answer(case, i, s, md5)
        sstat.append(status)
        answers.append([ord(c) for c in (t.decode('latin-1') if isinstance(t, bytes) else t)])
    # the data URL likewise: the status that is served and the token of what it carries (7 = an error page, no body
    # of the scenario); the model of `_download` (dataOfStatus) decides what is an HTTP error
    dstat, dbody = [], []
    for i, d in enumerate(case['ds']):
        status, _, _b = _data_answer(case, i, d, bodies, md5)
        dstat.append(status)
        dbody.append(d if d else 7)
    return dict(p=PID, op='download', prior=case['prior'], ds=case['ds'], dstat=dstat, dbody=dbody,
                answers=answers, sstat=sstat,
                render=[[k, [ord(c) for c in md5[k]]] for k in (1, 2)], other=9)


def nontrivial(case):
    return case['prior'] is not None or bool(case['ds'])


def tally(rep, case, impl_res, ans):
    if 'ok' in impl_res and impl_res['ok'].get('skipped'):
        rep.count('skipped:' + impl_res['ok']['skipped'][:40])
        return
    if 'ok' in impl_res:
        rep.count('result:' + impl_res['ok']['result'])
        rep.count('data_requests:%d' % impl_res['ok']['log'].count('data'))
        if impl_res['ok'].get('second') is not None:
            rep.count('second_call_in_a_row:%s' % impl_res['ok']['second']['result'])
            if impl_res['ok']['second'].get('third'):
                rep.count('third_call_after_same_size_overwrite:%s' % impl_res['ok']['second']['third']['result'])
    rep.count('transfer_encoding:%s%s' % (case.get('encoding', 'identity'), ' over a loopback HTTP server' + (', data URL redirected' if case.get('redirect') else '') if case.get('server') else ' (in-process mock)'))
    rep.count('size_probe(HEAD):%s' % case.get('head', 'none'))
    rep.count('output_path:%s' % case.get('pathkind', 'path'))
    rep.count('checksum_file_format:%s' % _sumfmt(case))
    rep.count('checksum_letter_case:%s' % (case.get('digestcase') or 'lower'))
    if 9 in case['ss']:
        rep.count('wrong_checksum_form:%s' % (case.get('wrongfmt') or 'hex'))
    if case.get('layout') is not None:
        lead, mid, trail = case['layout']
        rep.count('checksum_layout_lead:%r' % lead)
        rep.count('checksum_layout_separator+name:%r' % mid)
        rep.count('checksum_layout_trail:%r' % trail)
        if lead and any(x in (1, 2) for x in case['ss']):
            rep.count('checksum_layout:indented or preceded by a blank line, checksum of a served body')
    if case.get('blank') is not None and 0 in case['ss']:
        rep.count('checksum_unavailable_as_blank_200:%r' % case['blank'])
    if 'ok' in impl_res:
        # HTTP error statuses really SERVED (to a request the real code made), per URL
        for which, status in impl_res['ok'].get('served', []):
            if status != 200:
                rep.count('http_error_status_served(%s URL):%d' % ('data' if which == 'data' else 'checksum', status))
        if any(st != 200 for _, st in impl_res['ok'].get('served', [])):
            rep.count('error_page:%s' % case.get('errpage', 'plain'))
    rep.count('prior:%s' % case['prior'])
    rep.count('body:' + case.get('body', 'normal'))


def classify(case, impl_res, ans, why):
    return dict(kind=why.split(':')[0], what=why.split(':')[1].strip()[:40], raised=impl_res.get('raised'))


def shrink(case):
    for key in ('ds', 'ss'):
        v = case[key]
        if v:
            c = dict(case); c[key] = v[:-1]
            yield c
    if case['prior'] is not None:
        c = dict(case); c['prior'] = None
        yield c
    if case.get('blank') is not None:
        c = dict(case); c['blank'] = None
        yield c
    if case.get('digestcase') == 'mixed':
        c = dict(case); c['digestcase'] = 'upper'
        yield c
    if case.get('errpage', 'plain') != 'plain':
        c = dict(case); c['errpage'] = 'plain'
        yield c
    for key in ('dstatus', 'sstatus'):
        if case.get(key) and list(case[key]) != [404]:
            c = dict(case); c[key] = [404]
            yield c
            if len(case[key]) > 1:
                for x in case[key]:
                    c = dict(case); c[key] = [x]
                    yield c
    if case.get('layout') is not None:
        lay = list(case['layout'])
        for i in range(3):
            if lay[i] != '':
                c = dict(case); c['layout'] = lay[:i] + [''] + lay[i + 1:]
                yield c


def gen(tier, rng):
    q = tier == 'quick'
    L = 3 if q else 4
    HEADS = ['none', 'ok', '403', 'ok_nolen', '501', 'short_len', 'long_len']
    k = 0
    j = 0
    PAGES = ['plain', 'html', 'empty', 'digest']
    # every 4xx / 5xx status of STATUSES, systematically: on the data URL at the first request and at the retry, for
    # every state of the checksum URL; on the checksum URL at the pre-check and at either verification
    m = 0
    for status in STATUSES:
        for prior in (None, 2):
            for ds in ([0], [2, 0]):
                for ss in ([], [1, 1, 1], [0, 0, 0], [2, 2, 2]):
                    m += 1
                    yield dict(p=PID, prior=prior, ds=ds, ss=ss, head=HEADS[m % 7], dstatus=[status],
                               sstatus=[STATUSES[(m // 3) % 8]], errpage=PAGES[m % 4],
                               pathkind=['path', 'str'][(m // 4) % 2])
        for prior in (None, 1, 2):
            for ds in ([1], [2, 1]):
                for ss in ([0, 0, 0], [0, 1, 1], [1, 0, 1], [2, 0, 0]):
                    m += 1
                    c = dict(p=PID, prior=prior, ds=ds, ss=ss, head=HEADS[m % 7], sstatus=[status], errpage=PAGES[m % 4],
                             pathkind=['path', 'str'][(m // 4) % 2])
                    if m % 6 == 5:
                        c.update(server=True, head=['none', 'ok', '403'][m % 3], encoding='identity')
                    yield c
    # a thin slice of the body sizes first (the whole block comes last and is the first thing a time budget cuts)
    for body in ('empty', 'one', 'big'):
        for prior in (None, 1, 2):
            for ds in ([1], [2, 1]):
                m += 1
                yield dict(p=PID, prior=prior, ds=ds, ss=[1, 1, 1], body=body, with_name=bool(m % 2), head=HEADS[m % 7])
    for prior in (None, 1, 2):
        for ld in range(0, L + 1):
            for ds in itertools.product([1, 2, 0], repeat=ld):
                for ls in range(0, 3 + 1):
                    for ss in itertools.product([1, 2, 9, 0], repeat=ls):
                        if q and ld == 3 and ls == 3 and (hash((ds, ss)) % 3):
                            continue
                        k += 1
                        yield dict(p=PID, prior=prior, ds=list(ds), ss=list(ss), head=HEADS[k % 7],
                                   pathkind=['path', 'str'][(k // 7) % 2], sumfmt=['name', 'bare', 'bare_nl', 'name', 'bare_crlf', 'latin1_name'][(k // 3) % 6],
                                   wrongfmt=['hex', 'nonhex'][(k // 5) % 2],
                                   encoding=['identity', 'identity', 'gzip'][(k // 2) % 3])
                        if k % 18 == 4:
                            # the same behaviours over a real loopback HTTP connection, half of them gzip-encoded
                            yield dict(p=PID, prior=prior, ds=list(ds), ss=list(ss), head=['none', 'ok', '403'][k % 3],
                                       server=True, encoding=['gzip', 'identity'][(k // 18) % 2], redirect=bool((k // 18) % 3 == 1),
                                       sumfmt=['name', 'bare_nl'][(k // 36) % 2])
                        if k % 6 == 3 and (0 in ds or 0 in ss):
                            # the same behaviours with "HTTP error" served as other 4xx / 5xx statuses (one per request
                            # position and URL) and other error pages
                            m += 1
                            c = dict(p=PID, prior=prior, ds=list(ds), ss=list(ss), head=HEADS[m % 7],
                                     dstatus=[STATUSES[(m + 3 * i) % 8] for i in range(2)],
                                     sstatus=[STATUSES[(m // 8 + 5 * i) % 8] for i in range(3)],
                                     errpage=PAGES[(m // 2) % 4], sumfmt=['name', 'bare_nl'][(m // 5) % 2])
                            if m % 12 == 7:
                                c.update(server=True, head=['none', 'ok', '403'][m % 3], encoding='identity')
                            yield c
                        if k % 6 == 1 and ls > 0:
                            # the same behaviours with the checksum file in another whitespace layout
                            j += 1
                            c = dict(p=PID, prior=prior, ds=list(ds), ss=list(ss), head=HEADS[j % 7],
                                     layout=[LEADS[j % 7], MIDS[(j // 7) % 6], TRAILS[(j // 42) % 5]],
                                     blank=BLANKS[(j // 4) % 5] if j % 4 == 3 else None,
                                     digestcase=[None, 'upper', None, 'mixed'][(j // 2) % 4],
                                     wrongfmt=['hex', 'nonhex'][(j // 3) % 2])
                            if j % 10 == 9:
                                c.update(server=True, head=['none', 'ok', '403'][j % 3], encoding='identity')
                            yield c
                        if not q and ld <= 3:
                            yield dict(p=PID, prior=prior, ds=list(ds), ss=list(ss), head=HEADS[(k + 3) % 7])
    yield from _gen_bodies(q, HEADS)


def _gen_bodies(q, HEADS):
    k = 0
    for body in ('empty', 'one', 'big'):
        for prior in (None, 1, 2):
            for ds in itertools.product([1, 2, 0], repeat=2):
                for ss in itertools.product([1, 2, 0], repeat=2 if q else 3):
                    k += 1
                    yield dict(p=PID, prior=prior, ds=list(ds), ss=list(ss), body=body, with_name=bool(len(ss) % 2),
                               head=HEADS[k % 7], pathkind=['path', 'str'][(k // 7) % 2])
