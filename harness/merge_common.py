"""Shared machinery for C11/C12 (and C14): generated multi-probe inputs, one real Merger.merge() run."""
import hashlib
import numpy as np
from pathlib import Path
from . import common as C
from . import dataset as D

TSVS = ['cluster_Amplitude.tsv', 'cluster_ContamPct.tsv', 'cluster_KSLabel.tsv']


def cell(k, t, s, c):
    return float(((k * 50 + t) * 50 + s) * 50 + c + 1)


def probe_spec(rng, k, ns=None, nc=None, nt=None, nsw=3, times_grid=6, tdtype='uint64', idtype='uint32',
               tsv=None, single_x=False, last_template_empty=False, whiten=True, sim=True, nloc=2, tl=2, gapped=False,
               ind_dtypes=('int32', 'int32'), sr=100.):
    nc = nc or rng.randrange(2, 7)
    nt = nt or rng.randrange(2, 5)
    ns = ns or rng.randrange(2, 13)
    samples = sorted(rng.randrange(0, times_grid) for _ in range(ns))
    ntu = nt - 1 if last_template_empty and nt > 2 else nt
    st = [rng.randrange(ntu) for _ in range(ns)]
    st[rng.randrange(ns)] = ntu - 1          # the highest used template has a spike
    ncl = rng.randrange(1, nt + 3)
    sc = [rng.randrange(ncl) if rng.random() < .5 else t for t in st]
    nloc = min(nloc, nc)
    tl = min(tl, nt)
    xs = [0] * nc if single_x else None
    pos = []
    cells = [(x, y) for x in range(3) for y in range(nc + 1)]
    for i, (x, y) in enumerate(rng.sample(cells, nc)):
        pos.append([float(10 * (0 if single_x else x)), float(20 * y + (i if single_x else 0))])
    if not single_x and len({p[0] for p in pos}) < 2:
        pos[0][0] = pos[1][0] + 10.
    ncd = nc + (rng.randrange(1, 4) if gapped else 0)
    spec = dict(
        tok=k, n_channels=nc, n_channels_dat=ncd, sample_rate=sr, dtype='int16', offset=0,
        spike_samples=samples, spike_templates=st, spike_clusters=sc,
        # unique tokens; stored in double precision, every other one is NOT representable in single precision (x.1):
        # a merged spike keeps its amplitude exactly
        amplitudes=[float(k * 1000 + i) + (.5 if i % 2 else .1) for i in range(ns)],
        channel_map=rng.sample(range(ncd), nc), channel_positions=pos,
        templates=[[[cell(k, t, s, c) for c in range(nc)] for s in range(nsw)] for t in range(nt)],
        pc_feature_ind=[rng.sample(range(nc), nloc) for _ in range(nt)],
        template_feature_ind=[rng.sample(range(nt), tl) for _ in range(nt)],
        dtypes=dict(spike_samples=tdtype, spike_templates=idtype, spike_clusters=idtype,
                    pc_feature_ind=ind_dtypes[0], template_feature_ind=ind_dtypes[1]),
    )
    if whiten:
        spec['whitening'] = [[float(k * 10000 + i * 100 + j + 1 + (100000 if i == j else 0)) for j in range(nc)] for i in range(nc)]
    if sim:
        spec['similar_templates'] = [[float(k * 10000 + i * 100 + j + 1 + (100000 if i == j else 0)) for j in range(nt)] for i in range(nt)]
    text = {}
    for fn in (tsv or []):
        field = fn[len('cluster_'):-4]
        ids = sorted(rng.sample(range(max(sc) + 1), rng.randrange(1, max(sc) + 2)))
        if rng.random() < .35:
            # rows of clusters without spikes ABOVE the highest cluster id with spikes (e.g. a KSLabel row of
            # a cluster emptied by curation): they have no id in the merged numbering
            ids += [max(sc) + 1 + j for j in range(rng.randrange(1, 3))]
        rows = ['cluster_id\t%s' % field]
        for c in ids:
            v = {'Amplitude': '%d.5' % (k * 100 + c), 'ContamPct': str(k * 100 + c), 'KSLabel': ['good', 'mua'][c % 2]}[field]
            rows.append('%d\t%s' % (c, v))
        text[fn] = '\n'.join(rows) + '\n'
        if rng.random() < .2:
            text[fn] = text[fn].replace('\t', ',')      # a comma-separated cluster_*.tsv: the header line decides
    spec['text_files'] = text
    return spec


def merge_case(rng, nprobes=None, **kw):
    k = nprobes or rng.randrange(1, 5)
    # all values of the generated probes (and of their merge) fit 16 bits / 7 bits, so narrow dtypes are legal
    tdtype = rng.pick(['uint64', 'int64', 'int32', 'uint32', 'uint16', 'int16'])
    idtype = rng.pick(['uint32', 'int32', 'int64', 'uint16'])        # the dtypes the loader accepts for ids
    tsv_mode = rng.randrange(3)
    probes = []
    kw = dict(kw)
    kw.setdefault('nloc', 2)
    kw.setdefault('tl', 2)
    kw.setdefault('sr', rng.pick([100., 1000., 2500., 30000., 30000.2715, 24414.0625]))      # one sampling rate for all probes of a merge
    kw.setdefault('ind_dtypes', (rng.pick(['int32', 'int64', 'uint32', 'int16', 'uint8']), rng.pick(['int32', 'int64', 'uint32', 'uint16', 'int8'])))
    for i in range(k):
        tsv = [f for f in TSVS if tsv_mode == 0 or (tsv_mode == 1 and rng.random() < .5)]
        probes.append(probe_spec(rng, i, tdtype=tdtype, idtype=idtype, tsv=tsv, **kw))
    if rng.random() < .2 and k > 1:      # optional matrices in only some probes
        del probes[rng.randrange(k)]['similar_templates']
    if rng.random() < .15 and k > 1:
        probes[rng.randrange(k)].pop('whitening', None)
    # probe coordinates stored as floats or integers (one dtype for all probes)
    pdt = rng.pick(['float64', 'float64', 'float32', 'int32', 'uint32', 'int64', 'uint16'])
    for p in probes:
        p['dtypes'] = dict(p.get('dtypes') or {}, channel_positions=pdt)
    if rng.random() < .3:
        # probes sorted with different versions of the sorter: template waveforms in single / double precision
        for p in probes:
            p['dtypes'] = dict(p['dtypes'], templates=rng.pick(['float32', 'float64']))
    return dict(probes=probes, dirnames=rng.pick(['idx', 'rev', 'nat']), dirkind=rng.pick(['path', 'str']),
                twice=rng.random() < .25)


def _hash_dir(d):
    out = {}
    for p in sorted(Path(d).iterdir()):
        if p.is_file():
            out[p.name] = hashlib.sha256(p.read_bytes()).hexdigest()
    return out


def _arr(path):
    a = np.load(path)
    return dict(dtype=str(a.dtype), shape=list(a.shape), vals=a.tolist())


def probe_dir(scheme, k):
    """probe directory names whose lexicographic order is / is not the order in which they are given"""
    if scheme == 'rev':
        return 'probe_%s' % 'zyxwvutsrq'[k % 10]
    if scheme == 'nat':
        return 'imec%d' % (8 + k)             # imec8, imec9, imec10, ...
    return 'probe%d' % k


def run_merge(case):
    """Runs the real Merger on the case; returns everything C11/C12 look at."""
    from phylib.io.merge import Merger
    from phylib.utils._misc import read_python, _read_tsv_simple
    with C.scratch_dir() as d:
        subdirs = []
        for k, spec in enumerate(case['probes']):
            sd = d / probe_dir(case.get('dirnames', 'idx'), k)
            D.write_dataset(sd, spec)
            subdirs.append(str(sd) if case.get('dirkind') == 'str' else sd)
        before = [_hash_dir(sd) for sd in subdirs]
        out = d / 'merged'
        m = Merger(subdirs, out).merge()
        try:
            res = dict(files=sorted(p.name for p in out.iterdir()))
            for fn in ('spike_times', 'amplitudes', 'spike_templates', 'spike_clusters', 'cluster_probes',
                       'channel_map', 'channel_probe', 'channel_positions', 'templates', 'pc_feature_ind',
                       'template_feature_ind', 'similar_templates', 'whitening_mat', 'whitening_mat_inv'):
                p = out / (fn + '.npy')
                res[fn] = _arr(p) if p.exists() else None
            res['params'] = {k: (v if isinstance(v, (int, float, str, bool, list)) else str(v))
                             for k, v in read_python(out / 'params.py').items()}
            res['tsv'] = {}
            for fn in TSVS:
                if (out / fn).exists():
                    f, data = _read_tsv_simple(out / fn)
                    res['tsv'][fn] = dict(field=f, data={str(k): v for k, v in data.items()})
            res['model'] = dict(
                spike_samples=[int(x) for x in m.spike_samples], spike_clusters=[int(x) for x in m.spike_clusters],
                spike_templates=[int(x) for x in m.spike_templates], amplitudes=[float(x) for x in m.amplitudes],
                n_templates=int(m.n_templates), n_channels=int(m.n_channels),
                channel_probes=[int(x) for x in m.channel_probes],
                metadata={f: {str(k): v for k, v in dd.items()} for f, dd in m.metadata.items()})
        finally:
            m.close()
        after = [_hash_dir(sd) for sd in subdirs]
        res['inputs_unchanged'] = [a == b for a, b in zip(before, after)]
        res['inputs_changed_files'] = [sorted(set(a.items()) ^ set(b.items())) for a, b in zip(before, after)]
        if case.get('twice'):
            # the same probes merged a second time in the same process give the same files
            out2 = d / 'merged_again'
            try:
                Merger(subdirs, out2).merge().close()
                h1, h2 = _hash_dir(out), _hash_dir(out2)
                res['second_merge_differs'] = sorted(k for k in set(h1) | set(h2) if h1.get(k) != h2.get(k))
            except Exception as e:  # noqa
                res['second_merge_differs'] = ['raised %s: %s' % (type(e).__name__, str(e)[:120])]
    return res
