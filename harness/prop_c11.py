"""C11 — merging probes conserves every spike and renumbers ids disjointly (DESIGN.md §5 C11)."""
from . import common as C
from . import merge_common as M

PID = 'C11'
PARALLEL = True
BATCH = 60
BUDGET_S = {'quick': 80, 'thorough': 1200}
RULE = ('1..4 probes with independent spike counts, id ranges with gaps and curated clusters, spike times '
        'on a grid of 6 instants so that ties inside and across probes are the norm, time dtypes '
        'uint64/int64/int32/uint32, id dtypes uint32/int32/int64, per-cluster TSVs in all / some / none of '
        'the probes; every spike carries a unique amplitude token so that its identity is observable '
        'after the merge. One case = one real Merger.merge(). non-trivial = >= 2 probes')
ASSUMPTIONS = ['np.save/np.load, csv are transport', 'same dtype across probes (dtype mixing is outside the domain)']


def impl(case):
    return M.run_merge(case)


def _inputs(case):
    P = case['probes']
    return ([p['spike_samples'] for p in P], [p['spike_clusters'] for p in P], [p['spike_templates'] for p in P])


def model_query(case, impl_res):
    t, sc, st = _inputs(case)
    return dict(p=PID, op='merge_spikes', times=t, clusters=sc, templates=st,
                template_counts=[len(p['templates']) for p in case['probes']], mds=_mds(case)[0])


def _parse_cell(v):
    try:
        return int(v)
    except ValueError:
        try:
            return float(v)
        except ValueError:
            return v


def _mds(case):
    """per TSV file: per probe None or rows [cluster id, token]; and the value each token stands for"""
    mds, vals = [], {}
    for f, fn in enumerate(M.TSVS):
        md = []
        for k, p in enumerate(case['probes']):
            txt = p.get('text_files', {}).get(fn)
            if txt is None:
                md.append(None)
                continue
            rows = []
            dl = '\t' if '\t' in txt.split('\n')[0] else ','
            for r, line in enumerate(txt.strip().split('\n')[1:]):
                cid, v = line.split(dl)
                tok = (f * 100 + k) * 1000 + r
                vals[tok] = _parse_cell(v)
                rows.append([int(cid), tok])
            md.append(rows)
        mds.append(md)
    return mds, vals


def oracle(case):
    P = case['probes']
    spikes = sorted((p['spike_samples'][i], k, i) for k, p in enumerate(P) for i in range(len(p['spike_samples'])))
    coff, toff, c, t = [], [], 0, 0
    for p in P:
        coff.append(c); toff.append(t)
        c += max(p['spike_clusters']) + 1
        t += max(max(p['spike_templates']) + 1, len(p['templates']))
    exp = dict(
        times=[s[0] for s in spikes],
        amps=[P[k]['amplitudes'][i] for _, k, i in spikes],
        clusters=[P[k]['spike_clusters'][i] + coff[k] for _, k, i in spikes],
        templates=[P[k]['spike_templates'][i] + toff[k] for _, k, i in spikes],
        cluster_probes=[k for k, p in enumerate(P) for _ in range(max(p['spike_clusters']) + 1)],
        coff=coff, toff=toff)
    tsv = {}
    for fn in M.TSVS:
        data = {}
        for k, p in enumerate(P):
            txt = p.get('text_files', {}).get(fn)
            if txt is None:
                continue
            dl = '\t' if '\t' in txt.split('\n')[0] else ','
            for line in txt.strip().split('\n')[1:]:
                cid, v = line.split(dl)
                try:
                    v = int(v)
                except ValueError:
                    try:
                        v = float(v)
                    except ValueError:
                        pass
                if int(cid) > max(p['spike_clusters']):
                    continue        # no spike, no id in the merged numbering (it would fall on the next probe's ids)
                data[str(int(cid) + coff[k])] = v
        if data:
            tsv[fn] = data
    exp['tsv'] = tsv
    return exp


def judge(case, impl_res, ans):
    if 'err' in ans:
        return 'MACHINERY: driver error %s' % ans['err']
    m = ans['ok']
    exp = oracle(case)
    if m['times'] != exp['times'] or m['clusters'] != exp['clusters'] or m['templates'] != exp['templates'] \
            or m['cluster_probes'] != exp['cluster_probes']:
        return 'MACHINERY: Lean model differs from the python oracle'
    if 'raised' in impl_res:
        return 'SPEC: Merger.merge() raised %s (%s) at %s on an in-domain input' % (
            impl_res['raised'], impl_res['msg'], impl_res['where'])
    ok = impl_res['ok']
    if ok.get('second_merge_differs'):
        return 'SPEC: merging the same probes a second time in the same process gave different files: %s' % ok['second_merge_differs'][:4]
    if not all(ok['inputs_unchanged']):
        return 'SPEC: input directories were modified: %s' % ok['inputs_changed_files']
    if ok['spike_times']['vals'] != exp['times']:
        return 'SPEC: merged spike times are not the sorted multiset of input times'
    if ok['amplitudes']['vals'] != exp['amps']:
        return 'SPEC: spikes lost/duplicated/reordered (amplitude tokens): ties must keep in-probe order and order probes by index'
    if ok['spike_clusters']['vals'] != exp['clusters']:
        return 'SPEC: merged cluster ids are not (original id + per-probe offset)'
    if ok['spike_templates']['vals'] != exp['templates']:
        return 'SPEC: merged template ids are not (original id + per-probe offset)'
    if ok['cluster_probes']['vals'] != exp['cluster_probes']:
        return 'SPEC: cluster_probes does not point back to the originating probe'
    got_tsv = {fn: v['data'] for fn, v in ok['tsv'].items()}
    # the Lean model of write_cluster_data (theorem metadata_points_back) against the python oracle
    _, vals = _mds(case)
    lean_tsv = {}
    for fn, rows in zip(M.TSVS, m['metadata']):
        if rows:
            lean_tsv[fn] = {str(K): vals[tok] for K, tok in rows}
    if lean_tsv != exp['tsv']:
        return 'MACHINERY: Lean mergeClusterData differs from the python oracle: %s vs %s' % (lean_tsv, exp['tsv'])
    if got_tsv != exp['tsv']:
        return 'SPEC: renumbered per-cluster metadata differs: %s vs %s' % (got_tsv, exp['tsv'])
    mm = ok['model']
    if mm['spike_samples'] != exp['times'] or mm['spike_clusters'] != exp['clusters'] or \
            mm['spike_templates'] != exp['templates'] or mm['amplitudes'] != exp['amps']:
        return 'SPEC: the TemplateModel returned by merge() differs from the merged files'
    return None


def nontrivial(case):
    return len(case['probes']) >= 2


def tally(rep, case, impl_res, ans):
    rep.count('probe_dir_names:%s/%s' % (case.get('dirnames', 'idx'), case.get('dirkind', 'path')))
    rep.count('probes:%d' % len(case['probes']))
    t = [x for p in case['probes'] for x in p['spike_samples']]
    if len(t) != len(set(t)):
        rep.count('ties')
    rep.count('tdtype:' + case['probes'][0]['dtypes']['spike_samples'])
    rep.count('tsv_probes:%d' % sum(1 for p in case['probes'] if p.get('text_files')))


def classify(case, impl_res, ans, why):
    return dict(kind=why.split(':')[0], what=why.split(':')[1].strip()[:45], nprobes_ge3=len(case['probes']) >= 3,
                raised=impl_res.get('raised'), where=impl_res.get('where'))


def shrink(case):
    P = case['probes']
    if len(P) > 1:
        for i in range(len(P)):
            yield dict(case, probes=P[:i] + P[i + 1:])
    for k, p in enumerate(P):
        ns = len(p['spike_samples'])
        if ns > 2:
            for i in range(ns):
                q = dict(p)
                for key in ('spike_samples', 'spike_templates', 'spike_clusters', 'amplitudes'):
                    q[key] = p[key][:i] + p[key][i + 1:]
                if max(q['spike_templates']) != max(p['spike_templates']) or max(q['spike_clusters']) != max(p['spike_clusters']):
                    continue
                yield dict(case, probes=P[:k] + [q] + P[k + 1:])
        if p.get('text_files'):
            q = dict(p); q['text_files'] = {}
            yield dict(case, probes=P[:k] + [q] + P[k + 1:])


def gen(tier, rng):
    q = tier == 'quick'
    for i in range(150 if q else 3000):
        yield dict(p=PID, **M.merge_case(rng, nprobes=[1, 2, 3, 4][i % 4] if i < 40 else None))
