"""C11 — merging probes conserves every spike and renumbers ids disjointly (DESIGN.md §5 C11)."""
from . import common as C
from . import merge_common as M

PID = 'C11'
PARALLEL = True
BATCH = 60
BUDGET_S = {'quick': 80, 'thorough': 1200}
RULE = ('1..4 probes with independent spike counts, id ranges with gaps and curated clusters, spike times '
        'on a grid of 6 instants so that ties inside and across probes are the norm, time dtypes '
        'uint64/int64/int32/uint32, id dtypes uint32/int32/int64, per-cluster TSVs in all / some / none of '
        'the probes, a quarter of them with an everyday artefact (a trailing blank line, a blank line between rows, CRLF line '
        'ends: same rows, other bytes); every spike carries a unique amplitude token so that its identity is observable '
        'after the merge. One case = one real Merger.merge(), also run through the Lean file-system model of the '
        'whole merge (which files appear in the output directory, their contents, nothing else touched); every '
        'fourth case uses a Merger / process that has merged before (same object twice, write_spike_clusters twice, '
        'another recording first); every fourth case is a merge RETRIED on the same Merger after a merge() that raised '
        'half-way (a required file of one probe - any of the ten, any probe; half of the time templates.npy, the file '
        'read inside a per-probe loop - is not there yet, is then copied in): the retry must leave what a new Merger '
        'leaves, Lean mergeRetry / theorem merge_again_as_fresh. Advisory stream (never a verdict, agreement recorded under advisory:*): probes '
        'without spikes / with one spike / without a required file, output directory = a probe directory. '
        'non-trivial = >= 2 probes')
ASSUMPTIONS = ['np.save/np.load, csv are transport', 'same INTEGER dtype across probes (mixing integer dtypes is outside the domain); '
               'amplitude precision (float32 / float64) may differ between the probes of a merge']


def impl(case):
    """One real merge. `again` (the state a Merger keeps must not leak into a later merge):
    'same_object'  - the SAME Merger object merges twice, the files left by the second merge() are judged;
    'write_twice'  - write_spike_clusters() runs twice inside one merge();
    'after_other'  - another recording (`prelude`, other channel / template / spike counts) is merged first by
                     another Merger in the same process;
    'retry'        - the file `fail.file` of probe `fail.probe` is not in its directory yet: merge() raises half-way
                     (whatever the write_* methods had registered on the object stays there); the file is put in
                     place and the SAME Merger merges again. The retried merge is the judged one (its input is the
                     complete, in-domain set of probe directories); what the failed attempt raised / left is recorded
                     under `first_attempt` and only tallied (that call is outside the quantifier).
    In every mode the judged directory must equal what a fresh process writes, i.e. the model."""
    mode = case.get('again')
    if case.get('advisory'):
        return run_merge_outcome(case)
    if not mode:
        return M.run_merge(case)
    import phylib.io.merge as pm
    from . import dataset as D
    Real = pm.Merger
    if mode == 'after_other':
        with C.scratch_dir() as d:
            subs = []
            for k, spec in enumerate(case['prelude']):
                D.write_dataset(d / ('pre%d' % k), spec)
                subs.append(d / ('pre%d' % k))
            Real(subs, d / 'merged').merge().close()
        return M.run_merge(case)

    first = {}

    class Again(Real):
        if mode == 'same_object':
            def merge(self):
                Real.merge(self).close()
                return Real.merge(self)
        elif mode == 'retry':
            def merge(self):
                f = case['fail']
                src = self.subdirs[f['probe']] / f['file']
                aside = self.out_dir.parent / ('not_copied_yet_' + f['file'])
                src.rename(aside)
                try:
                    try:
                        Real.merge(self).close()
                        first['raised'] = None
                    except Exception as e:  # noqa
                        first['raised'] = type(e).__name__
                    first['out_files'] = sorted(p.name for p in self.out_dir.iterdir())
                finally:
                    aside.rename(src)
                return Real.merge(self)
        else:
            def write_spike_clusters(self):
                Real.write_spike_clusters(self)
                Real.write_spike_clusters(self)
    pm.Merger = Again
    try:
        res = M.run_merge(case)
    finally:
        pm.Merger = Real
    if mode == 'retry':
        res['first_attempt'] = first
    return res


# the files Merger.merge() cannot do without (np.load / read_python raise FileNotFoundError)
REQUIRED = ['params.py', 'spike_times.npy', 'amplitudes.npy', 'spike_templates.npy', 'spike_clusters.npy',
            'templates.npy', 'channel_map.npy', 'channel_positions.npy', 'pc_feature_ind.npy', 'template_feature_ind.npy']


def with_again(case, i, rng):
    """every second case exercises a Merger / process that has merged before, or a Merger whose merge() has raised"""
    mode = {3: 'same_object', 7: 'after_other', 11: 'write_twice', 1: 'retry', 5: 'retry', 9: 'retry'}.get(i % 12)
    if mode:
        case['again'] = mode
        case['twice'] = False        # (the fresh second Merger of `twice` is the weaker form of these)
        if mode == 'after_other':
            case['prelude'] = M.merge_case(rng, nprobes=2 + i % 2)['probes']
        if mode == 'retry':
            # templates.npy is the one file opened INSIDE a per-probe loop (write_spike_clusters), i.e. after the
            # loop has registered the earlier probes on the object: half of the retries
            fn = 'templates.npy' if rng.random() < .5 else rng.pick([f for f in REQUIRED if f != 'templates.npy'])
            k = len(case['probes'])
            # any probe; a LATER probe (the loops have registered the earlier ones when they reach it) more often
            probe = rng.randrange(1, k) if k > 1 and rng.random() < .5 else rng.randrange(k)
            case['fail'] = dict(probe=probe, file=fn)
    return case


def without_again(case):
    return {k: v for k, v in case.items() if k not in ('again', 'prelude', 'twice', 'fail')}


def drop_probe(case, i):
    """the case without probe i (None: probe i is the one whose file is missing at the first attempt)"""
    P = case['probes']
    c = dict(case, probes=P[:i] + P[i + 1:])
    f = case.get('fail')
    if f:
        if f['probe'] == i:
            return None
        c['fail'] = dict(f, probe=f['probe'] - (1 if i < f['probe'] else 0))
    return c


# ----------------------------------------------------------------------------------------
# advisory stream: merges OUTSIDE the quantifier (a probe without spikes / with one spike / without a required
# file, the output directory being a probe directory). Never a verdict: the outcome of the real code (exception
# class, files left in the output directory, probe directories touched) is compared with the Lean file-system
# model and the agreement is recorded in the evidence.
# ----------------------------------------------------------------------------------------

ERR_CLASS = dict(notFound='FileNotFoundError', zeroDim='ValueError', emptyMax='ValueError', shape='AssertionError', ragged='ValueError',
                 noProbes='AssertionError')


def run_merge_outcome(case):
    from phylib.io.merge import Merger
    from . import dataset as D
    import numpy as np
    with C.scratch_dir() as d:
        names = probe_names(case)
        subdirs = []
        for k, spec in enumerate(case['probes']):
            spec = dict(spec)
            for mu in case.get('mutations', []):
                if mu['probe'] == k and mu.get('spikes') is not None:
                    for key in ('spike_samples', 'spike_templates', 'spike_clusters', 'amplitudes'):
                        spec[key] = spec[key][:mu['spikes']]
            D.write_dataset(d / names[k], spec)
            for mu in case.get('mutations', []):
                if mu['probe'] == k and 'delete' in mu and (d / names[k] / mu['delete']).exists():
                    (d / names[k] / mu['delete']).unlink()
            subdirs.append(d / names[k])
        before = [M._hash_dir(sd) for sd in subdirs]
        out = d / 'merged' if case.get('out_is_probe') is None else subdirs[case['out_is_probe']]
        res = dict(raised=None)
        try:
            Merger(subdirs, out).merge().close()
        except Exception as e:  # noqa
            res['raised'] = type(e).__name__
        after = [M._hash_dir(sd) for sd in subdirs]
        res['out_files'] = sorted(p.name for p in out.iterdir()) if out.exists() else []
        res['probes_unchanged'] = [a == b for a, b in zip(before, after)]
    return res


def advisory_cases(rng, n):
    for i in range(n):
        case = dict(p=PID, advisory=True, **M.merge_case(rng, nprobes=2 + i % 2))
        case['twice'] = False
        k = rng.randrange(len(case['probes']))
        kind = ['no_spikes', 'one_spike', 'missing', 'aliased', 'missing'][i % 5]
        case['advisory'] = kind
        if kind == 'no_spikes':
            case['mutations'] = [dict(probe=k, spikes=0)]
            case['probes'][k]['text_files'] = {}
        elif kind == 'one_spike':
            case['mutations'] = [dict(probe=k, spikes=1)]
            case['probes'][k]['text_files'] = {}
        elif kind == 'missing':
            case['mutations'] = [dict(probe=k, delete=rng.pick(
                ['amplitudes.npy', 'spike_clusters.npy', 'templates.npy', 'channel_positions.npy', 'pc_feature_ind.npy',
                 'template_feature_ind.npy', 'params.py', 'channel_map.npy']))]
        else:
            case['out_is_probe'] = k
        yield case


def advisory_note(case, impl_res, fsans):
    """-> 'agree' | what differs (never a verdict)"""
    if 'raised' in impl_res and 'ok' not in impl_res:
        return 'harness error %s' % impl_res['raised']
    r, fm = impl_res['ok'], fsans.get('ok')
    if fm is None:
        return 'driver error'
    names = probe_names(case)
    exp_raised = ERR_CLASS.get((fm['error'] or {}).get('kind'))
    if r['raised'] != exp_raised:
        return 'exception: real %s, model %s' % (r['raised'], fm['error'])
    if sorted(fm['out_names']) != r['out_files']:
        return 'files left in the output directory: real %s, model %s' % (r['out_files'], sorted(fm['out_names']))
    alias = case.get('out_is_probe')
    if any(not u for k, u in enumerate(r['probes_unchanged']) if k != alias) or not fm['others_untouched']:
        return 'a probe directory other than the output directory was touched'
    return 'agree'


def _inputs(case):
    P = case['probes']
    return ([p['spike_samples'] for p in P], [p['spike_clusters'] for p in P], [p['spike_templates'] for p in P])


def model_query(case, impl_res):
    if case.get('advisory'):
        return fs_query(case)
    t, sc, st = _inputs(case)
    return dict(p=PID, op='merge_spikes', times=t, clusters=sc, templates=st,
                template_counts=[len(p['templates']) for p in case['probes']], mds=_mds(case)[0],
                _second=fs_query(case))


# ----------------------------------------------------------------------------------------
# the merge as a function on a file system (Lean `C11.merge`, theorems inputs_untouched, merge_ok_*)
# ----------------------------------------------------------------------------------------

RATE_SCALE = 10000        # params.py sample_rate as an integer token
POS_SCALE = 4             # probe coordinates are exact multiples of 1/4: the model gets them in quarter units (the
                          # model's translation 2*max(x) - min(x) commutes with the change of unit)


def pos_tok(v):
    """a coordinate as the exact integer number of quarters"""
    q = v * POS_SCALE
    if q != round(q):
        raise AssertionError('coordinate %r is not a multiple of 1/%d' % (v, POS_SCALE))
    return int(round(q))


def _int(v):
    # non-finite cells (an empty template stored as NaN, a saturated sample) are tokens of their own
    return -999999 if v != v else (-999998 if v in (float('inf'), float('-inf')) else int(v))


def _ints(m):
    return [[_int(v) for v in row] for row in m]


def probe_files(case, k):
    """the files of probe directory k as the file-system model reads them: name -> {k: kind, v: value}"""
    p = case['probes'][k]
    for mu in case.get('mutations', []):
        if mu['probe'] == k and mu.get('spikes') is not None:
            p = dict(p)
            for key in ('spike_samples', 'spike_templates', 'spike_clusters', 'amplitudes'):
                p[key] = p[key][:mu['spikes']]
    mds, _ = _mds(case)
    f = {
        'params.py': dict(k='params', v=[int(round(p['sample_rate'] * RATE_SCALE)), p['n_channels_dat']]),
        'spike_times.npy': dict(k='ints', v=p['spike_samples']),
        'amplitudes.npy': dict(k='ints', v=[int(round(2 * a)) for a in p['amplitudes']]),
        'spike_templates.npy': dict(k='nats', v=p['spike_templates']),
        'spike_clusters.npy': dict(k='nats', v=p['spike_clusters']),
        'channel_map.npy': dict(k='nats', v=p['channel_map']),
        'channel_positions.npy': dict(k='pos', v=[[pos_tok(x), pos_tok(y)] for x, y in p['channel_positions']]),
        'templates.npy': dict(k='tmpl', v=[_ints(t) for t in p['templates']]),
        'pc_feature_ind.npy': dict(k='table', v=p['pc_feature_ind']),
        'template_feature_ind.npy': dict(k='table', v=p['template_feature_ind']),
    }
    for key, fn in (('whitening', 'whitening_mat.npy'), ('whitening_inv', 'whitening_mat_inv.npy'),
                    ('similar_templates', 'similar_templates.npy')):
        if p.get(key) is not None:
            f[fn] = dict(k='mat', v=_ints(p[key]))
    for fi, fn in enumerate(M.TSVS):
        if mds[fi][k] is not None:
            f[fn] = dict(k='tsv', v=mds[fi][k])
    for mu in case.get('mutations', []):
        if mu['probe'] != k:
            continue
        if 'delete' in mu:
            f.pop(mu['delete'], None)
    return f


def probe_names(case):
    return [M.probe_dir(case.get('dirnames', 'idx'), k) for k in range(len(case['probes']))]


def fs_query(case):
    if case.get('again') in ('same_object', 'retry') and not case.get('advisory'):
        return retry_query(case)
    names = probe_names(case)
    fs = [dict(dir=names[k], name=n, file=f) for k in range(len(names)) for n, f in sorted(probe_files(case, k).items())]
    out = 'merged' if case.get('out_is_probe') is None else names[case['out_is_probe']]
    return dict(p=PID, op='merge_fs', fs=fs, subdirs=names, out=out)


def retry_query(case):
    """two merge() calls of ONE Merger (Lean `C11.mergeRetry`): the first on the directories without the file
    `fail` (it raises half-way), the file is put in place (`edits`), the second call is the judged one.
    `same_object`: no file missing, no edit - the first call returns."""
    f = case.get('fail') if case.get('again') == 'retry' else None
    base = {k: v for k, v in case.items() if k not in ('again', 'fail')}
    names = probe_names(case)
    if f is None:
        return dict(fs_query(base), op='merge_fs_retry', edits=[])
    q = fs_query(dict(base, mutations=[dict(probe=f['probe'], delete=f['file'])]))
    edits = [dict(dir=names[f['probe']], name=f['file'], file=probe_files(base, f['probe'])[f['file']])]
    return dict(q, op='merge_fs_retry', edits=edits)


def first_attempt_note(case, ok, fsans):
    """the merge() that raised (outside the quantifier: tallied, never a verdict): real outcome vs Lean `mergeRetry`"""
    fm = ((fsans or {}).get('ok') or {}).get('first')
    fa = (ok or {}).get('first_attempt')
    if fm is None or fa is None:
        return 'no answer'
    exp_raised = ERR_CLASS.get((fm['error'] or {}).get('kind'))
    # a missing params.py: read_python raises a plain IOError (= OSError, the base class of FileNotFoundError)
    if fa.get('raised') != exp_raised and not (exp_raised == 'FileNotFoundError' and fa.get('raised') == 'OSError'):
        return 'exception: real %s, model %s' % (fa.get('raised'), fm['error'])
    if sorted(fm['out_names']) != fa.get('out_files'):
        return 'files left in the output directory: real %s, model %s' % (fa.get('out_files'), sorted(fm['out_names']))
    return 'agree'


def _real_file(name, ok):
    """the real merged file `name` in the value domain of the file-system model (None: not comparable)"""
    key = name[:-4]
    if name.endswith('.npy') and ok.get(key) is None:
        return None
    if name in ('spike_times.npy',):
        return dict(k='ints', v=[int(x) for x in ok[key]['vals']])
    if name == 'amplitudes.npy':
        return dict(k='ints', v=[int(round(2 * x)) for x in ok[key]['vals']])
    if name in ('spike_templates.npy', 'spike_clusters.npy', 'cluster_probes.npy', 'channel_map.npy', 'channel_probe.npy'):
        return dict(k='nats', v=[int(x) for x in ok[key]['vals']])
    if name in ('pc_feature_ind.npy', 'template_feature_ind.npy'):
        return dict(k='table', v=_ints(ok[key]['vals']))
    if name == 'channel_positions.npy':
        return dict(k='pos', v=[[int(round(x * POS_SCALE)), int(round(y * POS_SCALE))] for x, y in ok[key]['vals']])
    if name == 'templates.npy':
        return dict(k='tmpl', v=[_ints(t) for t in ok[key]['vals']])
    if name in ('similar_templates.npy', 'whitening_mat.npy', 'whitening_mat_inv.npy'):
        return dict(k='mat', v=_ints(ok[key]['vals']))
    if name == 'params.py':
        return dict(k='params', v=[int(round(float(ok['params'].get('sample_rate')) * RATE_SCALE)), ok['params'].get('n_channels_dat')])
    return None


# the files each property talks about (a difference on a file of the other property is the other check's alarm)
C11_FILES = ('spike_times.npy', 'amplitudes.npy', 'spike_templates.npy', 'spike_clusters.npy', 'cluster_probes.npy',
             'probes.description.tsv') + tuple(M.TSVS)
C12_FILES = ('params.py', 'channel_map.npy', 'channel_probe.npy', 'channel_positions.npy', 'templates.npy',
             'pc_feature_ind.npy', 'template_feature_ind.npy', 'similar_templates.npy', 'whitening_mat.npy',
             'whitening_mat_inv.npy')


def fs_compare(case, ok, fsans, names):
    """real merge vs the Lean file-system model (successful merge of an in-domain case): which files exist in the
    output directory, the contents of the files in `names`, nothing else touched. -> verdict or None"""
    if 'err' in fsans:
        return 'MACHINERY: driver error %s' % fsans['err']
    fm = fsans['ok']
    if not fm['others_untouched']:
        return 'MACHINERY: the file-system model changed a path outside the output directory (contradicts inputs_untouched)'
    if fm['error'] is not None:
        return 'CORR: the file-system model raises %s where the real merge succeeds' % fm['error']
    for n in names:
        if (n in fm['out_names']) != (n in ok['files']):
            return 'CORR: %s is %s by the real merge and %s by the file-system model' % (
                n, 'written' if n in ok['files'] else 'not written', 'written' if n in fm['out_names'] else 'not written')
        mf = fm['out'].get(n)
        if mf is None:
            continue
        if mf['k'] in ('computed_inv', 'labels', 'tsv'):
            continue           # written by the loader (float inverse) / text files judged elsewhere: presence only
        rf = _real_file(n, ok)
        if rf != mf:
            return 'CORR: %s differs from the file-system model: real %s, model %s' % (n, str(rf)[:200], str(mf)[:200])
    return None


def _parse_cell(v):
    try:
        return int(v)
    except ValueError:
        try:
            return float(v)
        except ValueError:
            return v


def _tsv_rows(txt):
    """the rows [cluster id, value] of a two-column cluster_*.tsv text: the header line decides the delimiter, lines
    end with LF or CRLF, an EMPTY line (a trailing newline added by an editor, a gap between rows) is not a row"""
    lines = txt.replace('\r\n', '\n').split('\n')
    dl = '\t' if '\t' in lines[0] else ','
    return [line.split(dl) for line in lines[1:] if line != '']


TSV_ARTEFACTS = ('trailing blank line', 'blank line between rows', 'CRLF line ends')


def mixed_precisions(case, rng):
    """probes sorted with different versions of the sorter: amplitudes stored in single precision by some probes, in
    double precision by others (every other amplitude token, x.1, needs double precision)"""
    if len(case['probes']) > 1:
        for p in case['probes']:
            p['dtypes'] = dict(p['dtypes'], amplitudes=rng.pick(['float32', 'float64']))
    return case


def tsv_artefacts(case, rng):
    """everyday artefacts of hand-edited / exported per-cluster files: same rows, other bytes"""
    for p in case['probes']:
        for fn, txt in sorted((p.get('text_files') or {}).items()):
            if rng.random() >= .25:
                continue
            kind = rng.pick(TSV_ARTEFACTS)
            if kind == 'trailing blank line':
                txt = txt + '\n'
            elif kind == 'blank line between rows':
                lines = txt.split('\n')          # header, rows..., ''
                at = rng.randrange(1, len(lines) - 1)
                txt = '\n'.join(lines[:at + 1] + [''] + lines[at + 1:]) if at + 1 < len(lines) - 1 else txt + '\n'
            else:
                txt = txt.replace('\n', '\r\n')
            p['text_files'][fn] = txt
            case.setdefault('tsv_artefacts', []).append(kind)
    return case


def _mds(case):
    """per TSV file: per probe None or rows [cluster id, token]; and the value each token stands for"""
    mds, vals = [], {}
    for f, fn in enumerate(M.TSVS):
        md = []
        for k, p in enumerate(case['probes']):
            txt = p.get('text_files', {}).get(fn)
            if txt is None:
                md.append(None)
                continue
            rows = []
            for r, (cid, v) in enumerate(_tsv_rows(txt)):
                tok = (f * 100 + k) * 1000 + r
                vals[tok] = _parse_cell(v)
                rows.append([int(cid), tok])
            md.append(rows)
        mds.append(md)
    return mds, vals


def oracle(case):
    P = case['probes']
    spikes = sorted((p['spike_samples'][i], k, i) for k, p in enumerate(P) for i in range(len(p['spike_samples'])))
    coff, toff, c, t = [], [], 0, 0
    for p in P:
        coff.append(c); toff.append(t)
        c += max(p['spike_clusters']) + 1
        t += max(max(p['spike_templates']) + 1, len(p['templates']))
    exp = dict(
        times=[s[0] for s in spikes],
        amps=[P_amp(case, k, i) for _, k, i in spikes],
        clusters=[P[k]['spike_clusters'][i] + coff[k] for _, k, i in spikes],
        templates=[P[k]['spike_templates'][i] + toff[k] for _, k, i in spikes],
        cluster_probes=[k for k, p in enumerate(P) for _ in range(max(p['spike_clusters']) + 1)],
        coff=coff, toff=toff)
    tsv = {}
    for fn in M.TSVS:
        data = {}
        for k, p in enumerate(P):
            txt = p.get('text_files', {}).get(fn)
            if txt is None:
                continue
            for cid, v in _tsv_rows(txt):
                try:
                    v = int(v)
                except ValueError:
                    try:
                        v = float(v)
                    except ValueError:
                        pass
                if int(cid) > max(p['spike_clusters']):
                    continue        # no spike, no id in the merged numbering (it would fall on the next probe's ids)
                data[str(int(cid) + coff[k])] = v
        if data:
            tsv[fn] = data
    exp['tsv'] = tsv
    return exp


def judge(case, impl_res, ans):
    if case.get('advisory'):
        return None          # outside the quantifier: recorded by tally(), never a verdict
    if 'err' in ans:
        return 'MACHINERY: driver error %s' % ans['err']
    m = ans['ok']
    exp = oracle(case)
    if m['times'] != exp['times'] or m['clusters'] != exp['clusters'] or m['templates'] != exp['templates'] \
            or m['cluster_probes'] != exp['cluster_probes']:
        return 'MACHINERY: Lean model differs from the python oracle'
    if 'raised' in impl_res:
        return 'SPEC: Merger.merge() raised %s (%s) at %s on an in-domain input' % (
            impl_res['raised'], impl_res['msg'], impl_res['where'])
    ok = impl_res['ok']
    # each merged spike keeps its amplitude: the Lean origins (probe, index) of the merged spikes
    if [P_amp(case, k, i) for k, i in m['origins']] != exp['amps']:
        return 'MACHINERY: Lean mergedOrigins differ from the python oracle'
    if ok.get('second_merge_differs'):
        return 'SPEC: merging the same probes a second time in the same process gave different files: %s' % ok['second_merge_differs'][:4]
    if not all(ok['inputs_unchanged']):
        return 'SPEC: input directories were modified: %s' % ok['inputs_changed_files']
    if ok['spike_times']['vals'] != exp['times']:
        return 'SPEC: merged spike times are not the sorted multiset of input times'
    if ok['amplitudes']['vals'] != exp['amps'] and \
            [int(round(2 * a)) for a in ok['amplitudes']['vals']] == [int(round(2 * a)) for a in exp['amps']]:
        return 'SPEC: merged spikes do not keep their amplitude exactly (amplitudes.npy is %s; stored per probe as %s): %s' % (
            ok['amplitudes']['dtype'], [(p.get('dtypes') or {}).get('amplitudes', 'float64') for p in case['probes']],
            [(a, b) for a, b in zip(ok['amplitudes']['vals'], exp['amps']) if a != b][:2])
    if ok['amplitudes']['vals'] != exp['amps']:
        return 'SPEC: spikes lost/duplicated/reordered (amplitude tokens): ties must keep in-probe order and order probes by index'
    if ok['spike_clusters']['vals'] != exp['clusters']:
        return 'SPEC: merged cluster ids are not (original id + per-probe offset)'
    if ok['spike_templates']['vals'] != exp['templates']:
        return 'SPEC: merged template ids are not (original id + per-probe offset)'
    if ok['cluster_probes']['vals'] != exp['cluster_probes']:
        return 'SPEC: cluster_probes does not point back to the originating probe'
    got_tsv = {fn: v['data'] for fn, v in ok['tsv'].items()}
    # the Lean model of write_cluster_data (theorem metadata_points_back) against the python oracle
    _, vals = _mds(case)
    lean_tsv = {}
    for fn, rows in zip(M.TSVS, m['metadata']):
        if rows:
            lean_tsv[fn] = {str(K): vals[tok] for K, tok in rows}
    if lean_tsv != exp['tsv']:
        return 'MACHINERY: Lean mergeClusterData differs from the python oracle: %s vs %s' % (lean_tsv, exp['tsv'])
    if got_tsv != exp['tsv']:
        return 'SPEC: renumbered per-cluster metadata differs: %s vs %s' % (got_tsv, exp['tsv'])
    mm = ok['model']
    if mm['spike_samples'] != exp['times'] or mm['spike_clusters'] != exp['clusters'] or \
            mm['spike_templates'] != exp['templates'] or mm['amplitudes'] != exp['amps']:
        return 'SPEC: the TemplateModel returned by merge() differs from the merged files'
    for fn in M.TSVS:
        # the renumbered per-cluster metadata as the returned model shows it
        if {k: v for k, v in mm['metadata'].get(fn[len('cluster_'):-4], {}).items()} != exp['tsv'].get(fn, {}):
            return 'SPEC: metadata of the TemplateModel returned by merge() differs from the renumbered %s: %s vs %s' % (
                fn, mm['metadata'].get(fn[len('cluster_'):-4]), exp['tsv'].get(fn))
    if len(ok['cluster_probes']['vals']) != max(ok['spike_clusters']['vals']) + 1:
        return 'SPEC: cluster_probes does not have one row per merged cluster id (theorem clusterProbes_length)'
    # the merge as a function on directories (Lean C11.merge): files created, their contents, frame
    tsv_model = {}
    fm = (ans.get('second') or {}).get('ok')
    if fm:
        _, vals = _mds(case)
        for fn in M.TSVS:
            if fn in fm['out']:
                tsv_model[fn] = {str(K): vals[tok] for K, tok in fm['out'][fn]['v']}
        if tsv_model != exp['tsv']:
            return 'MACHINERY: per-cluster files of the file-system model differ from mergeClusterData'
    return fs_compare(case, ok, ans.get('second') or {'err': 'no answer'}, C11_FILES)


def P_amp(case, k, i):
    """the amplitude of spike i of probe k AS STORED in the probe directory (single or double precision)"""
    p = case['probes'][k]
    a = p['amplitudes'][i]
    if (p.get('dtypes') or {}).get('amplitudes') == 'float32':
        import numpy as np
        return float(np.float32(a))
    return a


def nontrivial(case):
    return len(case['probes']) >= 2 and not case.get('advisory')


def tally(rep, case, impl_res, ans):
    if case.get('advisory'):
        note = advisory_note(case, impl_res, ans)
        rep.count('advisory:%s:%s' % (case['advisory'], 'agree' if note == 'agree' else 'DIFFERS'))
        if note != 'agree':
            rep.extra.setdefault('advisory_differences', []).append(dict(kind=case['advisory'], what=note[:300]))
        return
    rep.count('again:%s' % case.get('again', 'no'))
    tally_retry(rep, case, impl_res, ans)
    rep.count('probe_dir_names:%s/%s' % (case.get('dirnames', 'idx'), case.get('dirkind', 'path')))
    rep.count('probes:%d' % len(case['probes']))
    t = [x for p in case['probes'] for x in p['spike_samples']]
    if len(t) != len(set(t)):
        rep.count('ties')
    rep.count('tdtype:' + case['probes'][0]['dtypes']['spike_samples'])
    ad = [(p.get('dtypes') or {}).get('amplitudes', 'float64') for p in case['probes']]
    rep.count('amplitude_precisions:%s' % ('all double' if set(ad) == {'float64'} else 'all single' if set(ad) == {'float32'} else
                                           'mixed, first probe %s' % ad[0]))
    if any(len(p['templates']) > max(p['spike_templates']) + 1 for p in case['probes']):
        rep.count('a probe whose last template has no spike')
    rep.count('tsv_probes:%d' % sum(1 for p in case['probes'] if p.get('text_files')))
    for kind in sorted(set(case.get('tsv_artefacts', []))):
        rep.count('tsv_artefact:' + kind)


def tally_retry(rep, case, impl_res, ans):
    if case.get('again') != 'retry':
        return
    f = case['fail']
    rep.count('retry_after_failed_merge:%s of %s' % (
        'templates.npy (read inside the per-probe loop)' if f['file'] == 'templates.npy' else 'another required file',
        'probe 0' if f['probe'] == 0 else 'a later probe'))
    note = first_attempt_note(case, impl_res.get('ok'), ans.get('second'))
    rep.count('retry_first_attempt_vs_model:%s' % ('agree' if note == 'agree' else 'DIFFERS'))
    if note != 'agree':
        rep.extra.setdefault('advisory_differences', []).append(dict(kind='first attempt of a retried merge', what=note[:300]))


def classify(case, impl_res, ans, why):
    return dict(kind=why.split(':')[0], what=why.split(':')[1].strip()[:45], nprobes_ge3=len(case['probes']) >= 3,
                raised=impl_res.get('raised'), where=impl_res.get('where'))


def shrink(case):
    if case.get('again') or case.get('twice'):
        # first: does it fail on a fresh Merger in a fresh state too?
        yield without_again(case)
    P = case['probes']
    if len(P) > 1:
        for i in range(len(P)):
            c = drop_probe(case, i)
            if c is not None:
                yield c
    for k, p in enumerate(P):
        ns = len(p['spike_samples'])
        if ns > 2:
            for i in range(ns):
                q = dict(p)
                for key in ('spike_samples', 'spike_templates', 'spike_clusters', 'amplitudes'):
                    q[key] = p[key][:i] + p[key][i + 1:]
                if max(q['spike_templates']) != max(p['spike_templates']) or max(q['spike_clusters']) != max(p['spike_clusters']):
                    continue
                yield dict(case, probes=P[:k] + [q] + P[k + 1:])
        if p.get('text_files'):
            q = dict(p); q['text_files'] = {}
            yield dict(case, probes=P[:k] + [q] + P[k + 1:])


def gen(tier, rng):
    q = tier == 'quick'
    for i in range(150 if q else 3000):
        # every tenth case: the last template of every probe has no spike (rows of templates.npy > max(spike_templates) + 1:
        # the template offsets of spike_templates.npy must count the rows)
        kw = dict(last_template_empty=True) if i % 10 == 3 else {}
        case = tsv_artefacts(dict(p=PID, **M.merge_case(rng, nprobes=[1, 2, 3, 4][i % 4] if i < 40 else None, **kw)), rng)
        if i % 6 == 4:
            case = mixed_precisions(case, rng)
        yield with_again(case, i, rng)
    yield from advisory_cases(rng, 10 if q else 200)
