#!/venv/bin/python
"""Record the AST digests of the anchored functions of /repo's current tree (anchors_digest.json). Run after every
`fix:` commit in /repo and after a model was reviewed against changed code; `./check` compares the working tree with
these digests and searches deeper (never alarms) when an anchored function differs."""
import json, os, sys
if sys.executable != '/venv/bin/python' and os.path.exists('/venv/bin/python'):
    os.execv('/venv/bin/python', ['/venv/bin/python'] + sys.argv)      # ast.dump differs between Python versions: use the interpreter of ./check
from pathlib import Path
V = Path(__file__).resolve().parent.parent
sys.path.insert(0, str(V))
from harness import codecov
out = {pid: codecov.anchor_digests(pid, '/repo') for pid in sorted(codecov.ANCHORS)}
out['_python'] = '%d.%d' % sys.version_info[:2]
(V / 'anchors_digest.json').write_text(json.dumps(out, indent=1, sort_keys=True))
print({k: len(v) for k, v in out.items() if k != '_python'})
