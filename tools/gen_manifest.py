#!/usr/bin/env python3
"""Regenerate MANIFEST.json from the table below (claimed checks + not_applicable reasons)."""
import json
from pathlib import Path
V = Path(__file__).resolve().parent.parent
ids = [json.loads(l)['id'] for l in open(V / 'properties.jsonl')]

TRUST = ('Lean 4.33.0 kernel + elaborator (thorough: re-checked by leanchecker); axioms limited to propext, '
         'Classical.choice, Quot.sound (audited by #print axioms on every run); no sorry/admit/own axioms/native_decide. '
         'The hand-written model is tied to /repo only by the correspondence run on the generated cases '
         '(distribution printed in the evidence). NumPy/CPython primitives, file formats and float rounding are modelled, not verified (DESIGN.md §4). ')

CLAIMED = {
 'C16': dict(
   text='Theorems (unbounded in data length, chunk size, overlap, number/size of files, batch size): kept parts of chunk_bounds tile the data exactly; '
        'each kept part lies inside its chunk and no chunk exceeds the chunk size; reader chunk bounds start at 0, end at n, increase strictly, contain every file boundary, gaps <= chunk; '
        'base and compressed (batch look-behind) iterators tile the recording; excerpts are in-bounds, disjoint, increasing, bounded in number and size. '
        'Composition with C01 (read_by_chunks_eq_concat): reader[i0:i1] over the iterator, stacked, is the concatenated recording, for any files (empty ones included) and chunk size. '
        'Correspondence: exhaustive small grids + real flat/array/cbin readers (header offsets, file names in non-sorted order, fractional sample rates, read chunk by chunk) + random large cases; the Lean executable also decides the C16 predicate on the real output.',
   note='chunk_size=int(round(600*sample_rate)) and the mtscomp chunk table/thread pool are outside the model (taken as inputs).',
   tech='Lean 4 theorems by loop invariant/induction over a hand-written model + differential correspondence against /repo', ref='§5 C16'),
}
CLAIMED['C15'] = dict(
   text='Theorems (unbounded number of spikes, any labelling): the shift loop with shrinking mask and early exit increments entry (i,j,k) exactly once per pair a<b with a in cluster i, b in cluster j, floor((t_b-t_a)/bin)=k<=half; '
        'list-level result in the caller\'s cluster order (any order, empty ids) equals the pair-count array; symmetrised array has 2*half+1 bins, reproduces positive lags, takes the max at the centre, C[i,j,k]=C[j,i,-k]; firing-rate normaliser is the outer product of counts. '
        'Correspondence: exhaustive sorted trains on a small grid x labelings x id orders x (bin, half) x symmetrize, random long trains, against real correlograms()/firing_rate().',
   note='Float-to-sample conversion and the final float multiplication of firing_rate are performed by the real code and only replicated (not modelled) by the harness on inputs it verifies to be exact.',
   tech='Lean 4 theorems (loop invariant, reindexing of sums) over a hand-written model + differential correspondence against /repo', ref='§5 C15')
CLAIMED['C07'] = dict(
   text='Theorems (any length, any id alphabet, every signed/unsigned width): grouping by stable argsort + first-difference boundaries computed in the dtype equals {cluster: increasing member spikes (or supplied ids)} in increasing id order, exactly the clusters present; groups partition the spikes; sorted differences never wrap; spikes-in-clusters is the sorted union of the groups; '
        '_unique, _index_of (unsorted lookups), _flatten_per_cluster, grouped_mean (sum, count per cluster) and the per-cluster template histogram equal their set-theoretic definitions. '
        'Correspondence: exhaustive assignment vectors over a gapped alphabet x int32/int64/uint16/uint32 x spike-id vectors, unsorted/absent requests, random long vectors, TemplateModel queries on generated datasets.',
   note='grouped_mean: integer-valued data (exact sums); the single float division is compared with the correctly rounded exact quotient.',
   tech='Lean 4 theorems (stable-sort block decomposition, fold invariants) over a hand-written model + differential correspondence against /repo', ref='§5 C07')
CLAIMED['C01'] = dict(
   text='Theorem (any number of parts of any lengths, rows of any type, with no non-emptiness assumption): for every in-domain index (int in [-n,n), unit-step slice with bounds in [-n,n] or None selecting >= 1 row, non-empty strictly increasing list within [0,n)) the split-over-parts / read / vstack algorithm returns exactly NumPy indexing of the concatenation, also followed by any channel selector; sample count = length of the concatenation; rows recovered exactly from file size, offset, item size. '
        'Correspondence: real flat (1..k files, header offsets, 5 dtypes), npy, in-memory and cbin readers; all compositions of n <= N x all index expressions x column selectors, python and numpy index objects; plus reader attributes.',
   note='np.memmap / np.load / mtscomp decoding are transport; the oracle for reader[item, cols] is A[item][:, cols].',
   tech='Lean 4 theorems (walker over parts = drop/take of the concatenation; sorted-bounds/searchsorted characterisation) + differential correspondence against /repo', ref='§5 C01')
CLAIMED['C19'] = dict(
   text='Theorems over all histories: every emit calls exactly the callbacks registered by the history before it for that event whose sender filter is absent or equal, registration order with `last` after the others, results in call order (first only with single), and nothing (None) while silenced at any nesting depth of silent contexts / set_silent; leaving contexts restores the state; progress reporter: a completion is announced at a step iff it is a value update reaching the maximum and none was announced since the value was last set below the maximum or the maximum was last raised. '
        'Correspondence: exhaustive op sequences over a fixed alphabet (emitter length <= 3/4, reporter <= 4/5) + random longer ones against the real EventEmitter / ProgressReporter with recording stubs.',
   note='Python call protocol (argument passing) is checked on the Python side only; senders/callbacks are tokens in the model.',
   tech='Lean 4 theorems by invariant over operation histories (refinement to a history-based spec) + differential correspondence against /repo', ref='§5 C19')
CLAIMED['C20'] = dict(
   text='Theorems for every hash function, prior file state and pair of server scripts of any length: a normal return with an answered last checksum fetch leaves a file hashing to that checksum; a valid existing file is not refetched; at most two data requests, a second one exactly after a mismatch; persistent mismatch raises; an HTTP error on a data request never yields a normal return; with a server whose checksum answer is fixed, every normal return leaves a file hashing to it (ok_with_fixed_checksum), the second data request happens iff the first post-download check fails (retry_iff) and the call raises iff a data request errors or both checks fail (raises_iff). '
        'Correspondence: the whole scripted space (3 priors x data scripts <= 3 x checksum scripts <= 3 over 4 answers) through the in-process `responses` mock, plus body sizes 0 B / 1 B / > 1 MiB.',
   note='requests, streaming and hashlib are outside the model; crash/partial-write behaviour is not modelled.',
   tech='Lean 4 theorems by exhaustive case analysis of the decision tree (symbolic in hash and script tails) + differential correspondence against /repo', ref='§5 C20')
CLAIMED['C02'] = dict(
   text='Theorems parametric in what each operator computes (any element-wise functions, any channel selections, any order, any cell type): indexing a reader carrying deferred operations = applying them to the concatenated array, then indexing (composition with the C01 theorem), also with a trailing channel selector; deriving gives the clone the parent\'s operations plus one and, for every derivation history (parents, siblings, grandchildren), leaves the operations of every existing reader untouched (heap model of _append_op). '
        'Correspondence: all operator chains of depth <= 2/3 over the 14 dunders + column selection (slices, index lists, boolean masks) with Python / NumPy-scalar / 0-d array operands on either side, base data at the dtype extremes, random derivation trees with parents re-read after every derivation, on flat/npy/array/cbin and 6 dtypes; value AND dtype compared with eager NumPy; the Lean model supplies which cells and which operators in which order.',
   note='Operator semantics and result dtypes are NumPy\'s (not modelled: the theorem is parametric); float pow restricted to exponents {0,1,2}; histories on which eager NumPy raises are discarded.',
   tech='Lean 4 theorems (map/commutation lemmas, heap frame invariant by induction over derivations) + differential correspondence against /repo', ref='§5 C02')
CLAIMED['C17'] = dict(
   text='Theorems: kept chunks are whole grid intervals at the stride max(1, ceil(n_chunks/k)) starting with the first, at most k; the searchsorted-parity test on the flattened kept bounds (touching intervals included) is exactly membership in a kept interval; and for EVERY random choice satisfying the contract of np.random.choice the selection is strictly increasing, contains only spikes of requested clusters inside kept chunks / the subset when asked, per requested cluster all eligible spikes when they number at most the count (or no positive count) and exactly count otherwise, nothing for unknown clusters. '
        'Correspondence: exhaustive tiny grids and random cases (int64/uint64/float64 times, spikes on chunk bounds, unknown/repeated requested ids, subset on/off) against the real SpikeSelector; the Lean executable decides the predicate on the real random output.',
   note='The contract of np.random.choice(replace=False) is a hypothesis; NumPy global RNG seeded per case.',
   tech='Lean 4 theorems quantified over all admissible choice functions + correspondence in which Lean decides the spec predicate on the real output', ref='§5 C17')
CLAIMED['C03'] = dict(
   text='Theorems (cells of any type with a zero; any recording, spike position, window length incl. longer than the recording, channel lists with -1): direct extraction = the zero-padded raw window; for chunk intervals that tile the recording (C16) and sorted spikes, chunk-by-chunk iteration yields exactly one window per spike in order wherever spikes fall relative to chunk boundaries; the exported file loads with the declared shape holding the scaled windows; store lookup returns the stored window column for stored channels, zeros otherwise, for queries in any order. '
        'Correspondence: real extract_waveforms / export_waveforms + np.load / get_spike_waveforms / TemplateModel.get_waveforms over lengths, channels, int16/float32/float64, array/flat multi-file/cbin, every chunk size, signed and unsigned spike dtypes, boundaries, -1 channels as arrays and lists, unit factors.',
   note='.npy byte layout / np.load are transport; factor multiplication exact on generated values; sample subtraction modelled after conversion to int (as the fixed code does).',
   tech='Lean 4 theorems (index-wise window equality, chain invariant over chunk intervals, flatten/chunk lemmas) + differential correspondence against /repo', ref='§5 C03')
CLAIMED['C06'] = dict(
   text='Theorems (cells of any type = any trailing dimensions): from_sparse returns at (i, j) the stored value whose column index names requested channel j, zero otherwise, for any column table with distinct real entries and repeated -1 and any distinct requested channels incl. unknown ones, independently of request order; get_features / get_template_features return, at the position of every STORED requested spike (any request order, with or without row table / column table), the densification of its stored row with its template\'s column row. '
        'Correspondence: exhaustive small from_sparse space (trailing dims, int32/int64/uint32 tables), real TemplateModel datasets with/without row and column tables, unsorted requests incl. unstored spikes. PCA route (no feature file): bookkeeping + numerical residual TEST only (partial).',
   note='PCA route is partial: np.cov/eigh are outside the model; eigen-equation residual and ordering are tested numerically (a test, not a proof).',
   tech='Lean 4 theorems (scatter-fold invariant, lookup-table lemmas) + differential correspondence against /repo', ref='§5 C06')
CLAIMED['C11'] = dict(
   text='Theorems for any number of probes/spikes: merged origins are a permutation of all input spikes; merged times non-decreasing; stable: merged origins sorted lexicographically by (time, probe, index); every per-spike array gathered by the same order keeps each spike\'s value; cluster ids shifted by running offsets max+1 and template ids by offsets counting each probe\'s templates, ranges of different probes never collide; cluster_probes points back to the probe; renumbered metadata found under id + offset and nothing else (metadata_points_back); the merged directory, read by the C04 loader model, loads with exactly the merged arrays (merged_dataset_loads). '
        'Correspondence: real Merger.merge() on 1..4 generated probes (ties inside/across probes, gapped ids, curated clusters, dtypes, TSVs in all/some/none), unique amplitude tokens identify spikes; input directories hashed before/after.',
   note='np.save/np.load/csv transport; same dtype across probes.',
   tech='Lean 4 theorems (stable insertion sort: permutation, sortedness, stability; prefix-sum offsets) + differential correspondence against /repo', ref='§5 C11')
CLAIMED['C12'] = dict(
   text='Theorems for any number of probes with any channel/template counts: channel offsets = summed channel counts (permutation maps); merged channel map/probe labels are contiguous blocks in input order; positions translated along x only and (>= 2 distinct x per probe, non-negative coordinates) strictly apart; template t of probe k at row toff_k + t on columns of block k, zeros elsewhere; index tables shifted by per-probe offsets; block_diag entries; params. '
        'For ARBITRARY channel maps (gaps, dead channels) the channel-index table lands in the merged channel numbering (pc_ind_in_block: shifted by channel counts, labelled with probe k, naming the same shifted raw channel). '
        'Correspondence: the same real merges as C11 with distinct tokens per template cell, forced 3-probe cases of different sizes, maps with gaps, narrow/unsigned table dtypes, integer-typed coordinates, optional matrices in some probes, second merge in the same process. One OPEN known finding (single-x-column probes not kept apart).',
   note='scipy block_diag modelled by a list definition; index tables must be present in every probe (Merger requires them).',
   tech='Lean 4 theorems by induction over the probe list with running offsets + differential correspondence against /repo', ref='§5 C12')
CLAIMED['C08'] = dict(
   text='Theorems (exact arithmetic): after any reassignment history the merge map sends every cluster id 0..max to exactly the sorted set of templates its spikes came from, ids without spikes are the ones reported empty; a single-template cluster carries that template unchanged; a multi-template cluster carries, on the dominant template\'s channels, the spike-count-weighted mean of its templates\' channel-restricted waveforms (zero elsewhere), the dominant template having the largest count; coinciding assignments give cluster waveforms = template waveforms and n_clusters = n_templates. '
        'Correspondence: real TemplateModel on datasets curated by random merge/split/reassign sequences (empty ids, count ties, shanks, whitening), merge_map / nan_idx / sparse_clusters.data / n_clusters / get_cluster_mean_waveforms.',
   note='Per-template channel lists (C05) are observed on the real model and fed to the Lean model; the weighted mean is one correctly rounded division on generated values.',
   tech='Lean 4 theorems (fold invariant over templates, exact rational weighted means) + differential correspondence against /repo', ref='§5 C08')
CLAIMED['C09'] = dict(
   text='Theorems over Rat: scaled spike amplitude = stored amplitude x largest channel peak-to-peak of the unwhitened template; per-id amplitude = mean over member spikes, NaN for EVERY id without spikes incl. the highest; peak-to-peak scales with non-negative factors, hence the rescaled waveform of an id has exactly its mean spike amplitude as peak amplitude; mean amplitudes per id present; argmax/argmin = first position of max/min (peak channels, peak/trough samples); depth = feature-weighted channel depth or NaN. '
        'Correspondence: real get_amplitudes_true (both id spaces), templates/clusters_amplitudes, *_channels, templates_probes, *_waveforms_durations, get_depths on generated dense datasets with ids without spikes at first/middle/last position.',
   note='Float rounding not modelled: generated values make each float operation exact or a single correctly rounded division; rescaled templates / curated-cluster chains compared with relative tolerance 1e-9 (stated, not hidden).',
   tech='Lean 4 theorems over exact rationals (single Mathlib modules for ordered-field lemmas) + differential correspondence against /repo', ref='§5 C09')
CLAIMED['C05'] = dict(
   text='Theorems (exact arithmetic, distinct positions): the dense record lists distinct channels with non-increasing amplitudes, first listed and best channel attaining the maximum, column j = (un)whitened waveform on listed channel j, amplitude j = its peak-to-peak, and a channel is listed iff it reaches the threshold fraction, lies on the best channel\'s shank and is among the nearest channels (fully determined when there is no distance tie at the cut); explicit lists are returned as given with their own amplitudes; sparse records list the stored channels minus unused/signal-free ones, ordered and aligned, unwhitened on the kept sub-matrix. '
        'Correspondence: the Lean executable decides the predicate on every real record of generated dense/sparse datasets (amplitude ties, neighbourhood sizes 1..12, shanks, thresholds, explicit lists, un/whitened); tie-free records are also compared exactly with the model.',
   note='np.argsort tie order is a relation (the predicate accepts any order among ties); float32 cast / matrix product exact on generated values only.',
   tech='Lean 4 theorems (stable sort permutation/ordering lemmas, nearest-set characterisation) + correspondence in which Lean decides the spec predicate on the real output', ref='§5 C05')
CLAIMED['C10'] = dict(
   text='Theorems over all histories: a reload shows the last saved spike clusters; for every saved metadata field (other than the reserved name info) exactly the last saved mapping (None dropped) whatever was saved before or for other fields, for any value renderer/parser that round-trips; unreadable files and cluster_info contribute nothing; every save leaves all other files untouched (frame). '
        'Correspondence: real TemplateModel histories (save_spike_clusters, save_metadata with ints/floats/strings/None, foreign valid/empty/ragged/unterminated-quote/cluster_info files, save_spikes_subset_waveforms, close, reload) compared after every reload with the Lean disk model and the abstract last-write-wins state; templates/times unchanged; subset store vs raw data.',
   note='csv and number parsing are transport (foreign files are parsed with the csv module and cells classified by the harness before reaching the model); after close only reload follows.',
   tech='Lean 4 refinement of a finite-map disk model to an abstract last-write-wins state, by induction over histories + differential correspondence against /repo', ref='§5 C10')
CLAIMED['C18'] = dict(
   text='Theorems: encoder + object hook round-trip every value (nested lists/dicts, arrays of any dtype/rank/size, NumPy scalars) to its canonical form (arrays keep dtype, shape, values; non-complex 1-D arrays of <= 10 items become equal lists); integer top-level keys incl. negative stay integers (proved for the concrete decimal formatter/parser), non-integer-like string keys stay strings; TSV/CSV: read(write(rows)) returns every (field, value) pair of every row with absent fields omitted, requested first column first, for any renderer/parser pair that round-trips on the cell domain (tsv_roundtrip_on), instantiated for decimal integers and alphabetic labels through str / int-or-text parsing (tsv_roundtrip_py). '
        'Correspondence: real save_json/load_json over all numeric dtypes, layouts, ranks, 9/10/11-item arrays, nested values; write_tsv/read_tsv with both delimiters and hostile strings; two-column tables and parameter files (Python side only).',
   note='json, csv, base64, number formatting/parsing and the Python parser are transport hypotheses exercised through the real libraries; simple tables and params.py are compared on the Python side only.',
   tech='Lean 4 theorems (mutual structural recursion over a JSON-like value type; list-level TSV model) + differential correspondence against /repo', ref='§5 C18')
CLAIMED['C13'] = dict(
   text='Theorems (decision logic stated outright): every object table written has the number of spikes / clusters / templates / channels of its family as first dimension, with or without label; the label is inserted before the extension of every such file and only there; one identifier row per cluster; conversion into the source directory is refused. '
        'The round trip (times, samples, clusters, templates, channel map, positions of the returned AND a freshly loaded model equal the source), seconds-vs-samples, identifier uniqueness and byte-identity of the source (apart from temp_wh.dat and the subset files) are established by the correspondence run on real conversions of generated datasets (raw/no raw, features, curated, probe table, KSLabel, (n,1) vectors, labels, merged sources).',
   note='PARTIAL: file table + naming + the load-back of the spike-level arrays through the C04 loader model for ANY label (reload_eq_source) are theorems; template waveforms after reload and the frame clauses rest on the sampled correspondence; uuid4 uniqueness assumed; re-export over an existing output directory exercised without label only.',
   tech='Lean 4 theorems over a file-table model + differential correspondence (real convert + reload + directory hashes) against /repo', ref='§5 C13')
CLAIMED['C14'] = dict(
   text='Theorems: exporting raw channel indices of a dataset merged from ANY number of probes (permutation maps) gives back each probe\'s original channel map for arbitrary NON-EMPTY channel maps, gaps and duplicates included (composition with the C12 merge model); listed channels are distinct channels of the peak\'s probe in non-decreasing L1 distance, peak first, no unlisted same-probe channel strictly closer; exported waveform column j is the waveform on listed channel j; cluster depth = depth of the peak channel, NaN for ids without spikes. Amplitude / rescaling / duration / feature-depth formulas are the C09 theorems. '
        'Correspondence: real conversions of single datasets (values of templates.*, clusters.*, spikes.amps/depths vs the exact C09/C14 models) and of datasets merged from 1..4 probes (raw indices, listed channels).',
   note='Float32 outputs compared with relative tolerance 1e-6, multi-step float64 chains with 1e-9; on merged sources only the index bookkeeping is claimed (large token values are not exact in float32).',
   tech='Lean 4 composition theorem (merge then export = identity on channel maps) + sort lemmas + differential correspondence against /repo', ref='§5 C14')
CLAIMED['C04'] = dict(
   text='Theorems over all directories: first matching name wins (and no earlier pattern matches anything); a successful load leaves every pre-existing file unchanged and creates nothing except the spike-cluster copy and the inverse whitening matrix, each exactly when missing; non-monotonic spike times are rejected; NaN/inf are scrubbed to zero in fully loaded arrays with finite cells and shape kept; without a cluster file the loaded clusters are the loaded templates and the created file is a byte copy of the template file. The attribute table (which file, which transform, which default) is the definition of the model and is tied to the real loader by the correspondence run. '
        'Correspondence: generated KS / ALF directories over the whole presence/absence matrix, (n,1) vectors, dtypes, NaN/inf incl. all-NaN templates, sparse templates, extra per-spike attributes, raw data wider than the channel map, non-monotonic times; every public attribute + directory hashes before/after.',
   note='PARTIAL: the value part is decision logic (shallow theorems) plus layout independence (load_layout_independent: a KiloSort-named directory and the ALF-named directory holding the same arrays load to the same view); np.linalg.inv opaque (wm . wmi = I and the contents of the created file checked numerically); memmap/glob transport; stored dimensions of size 1 are out of scope.',
   tech='Lean 4 theorems (frame theorem over a finite-map directory model, first-match lemma) + differential correspondence against /repo', ref='§5 C04')
REASONS = {}

checks = []
for i in ids:
    if i in CLAIMED:
        c = CLAIMED[i]
        checks.append(dict(
            property_id=i, quick_cmd='./check %s --tier quick' % i, thorough_cmd='./check %s --tier thorough' % i,
            evidence_file='evidence/%s.json' % i, replay_cmd_template='./check %s --replay {path}' % i,
            engine='lean4-proof+correspondence',
            level_claimed=dict(category='proof', text=c['text'], design_ref='DESIGN.md ' + c['ref']),
            level_note=TRUST + c['note'], technique=c['tech']))
na = [dict(property_id=i, reason=REASONS.get(i, 'check not yet built (work in progress; DESIGN.md §8 gives the order)'))
      for i in ids if i not in CLAIMED]
m = dict(
    version=1,
    setup_cmd='cd lean && lake build PhyVerif phyverif',
    hooks=dict(guard='PHYLIB_VERIF',
               enable='none needed: every observable is a return value or a file; the guard name is reserved and unused',
               baseline_off_cmd='cd /repo && /venv/bin/python -m pytest -ra -q -p no:cacheprovider --timeout=900 --continue-on-collection-errors',
               source_commits=[], add_only=True),
    engines=[dict(name='lean4-proof+correspondence', path='check', serves_properties=sorted(CLAIMED),
                  kind_free_text='Lean 4 theorems about a hand-written executable model (lean/PhyVerif), tied to /repo by a differential correspondence run (harness/) in which the Lean executable also decides the property predicate on the real output')],
    checks=checks,
    notes='Checks are added property by property as their theorems are proved; see DESIGN.md.',
    not_applicable=na)
(V / 'MANIFEST.json').write_text(json.dumps(m, indent=1))
print('claimed:', sorted(CLAIMED))
