#!/usr/bin/env python3
"""Evaluate one seeded change: tools/seed_eval.py <PID> <dir with patch.diff, demo.py[, notes.md]> <name>

Confirms (a) demo passes on the clean tree, (b) patch applies, demo fails, pinned tests still pass,
(c) what ./check <PID> reports; always restores /repo; stores everything under seeded/<PID>_<name>/.
"""
import json, os, shutil, subprocess, sys, time
from pathlib import Path
V = Path(__file__).resolve().parent.parent
pid, src, name = sys.argv[1], Path(sys.argv[2]), sys.argv[3]
extra_pids = sys.argv[4:]
env = dict(os.environ, TQDM_DISABLE='1')


def run(cmd, cwd=None, timeout=3000):
    p = subprocess.run(cmd, shell=True, cwd=cwd, stdout=subprocess.PIPE, stderr=subprocess.STDOUT, text=True, env=env, timeout=timeout)
    return p.returncode, p.stdout


# The change is applied to a scratch worktree of /repo (never to /repo itself, so that other work going on against
# /repo is not disturbed); the checks are pointed at it with PHYLIB_REPO (harness/common.py), the demo and the
# pinned tests with PYTHONPATH.  SEED_IN_REPO=1 applies it to /repo instead (git apply / checkout).
IN_REPO = os.environ.get('SEED_IN_REPO') == '1'
if IN_REPO:
    T = '/repo'
    st = run('git -C /repo status --porcelain --untracked-files=no')[1].strip()
    assert not st, 'repo not clean: ' + st
else:
    T = '/tmp/evalwt_%s_%s' % (pid, name[:12])
    run('git -C /repo worktree remove --force %s' % T)
    rc, out = run('git -C /repo worktree add -f --detach %s HEAD' % T)
    assert rc == 0, out
    env['PYTHONPATH'] = T
    env['PHYLIB_REPO'] = T
meta = dict(property=pid, name=name, repo_head=run('git -C /repo rev-parse HEAD')[1].strip(), ran=[])
rc, out = run('/venv/bin/python %s' % (src / 'demo.py'), cwd=T)
meta['demo_clean_rc'] = rc
meta['ran'].append('demo on clean tree: rc=%d' % rc)
rc, out = run('git -C ' + T + ' apply -3 %s' % (src / 'patch.diff'))
assert rc == 0, out
try:
    rc, out = run('/venv/bin/python %s' % (src / 'demo.py'), cwd=T)
    meta['demo_patched_rc'] = rc
    meta['demo_patched_tail'] = out[-600:]
    meta['ran'].append('demo on patched tree: rc=%d' % rc)
    rc, out = run('/venv/bin/python -m pytest -q -p no:cacheprovider --timeout=900 --continue-on-collection-errors phylib/electrode phylib/stats/tests/test_ccg.py phylib/utils 2>&1 | tail -1', cwd=T)
    meta['pinned_tests'] = out.strip()
    rc2, out2 = run('/venv/bin/python -m pytest -q -p no:cacheprovider --timeout=900 --continue-on-collection-errors phylib 2>&1 | tail -1', cwd=T)
    meta['all_tests'] = out2.strip()
    meta['checks'] = {}
    for p in [pid] + extra_pids:
        t0 = time.time()
        rc, out = run('./check %s --tier quick' % p, cwd=str(V))
        lines = [l for l in out.split('\n') if l.startswith(('VIOLATION', 'KNOWN', 'INFRA', p))]
        meta['checks'][p] = dict(rc=rc, lines=lines[:8], wall_s=round(time.time() - t0, 1))
        meta['ran'].append('./check %s --tier quick on patched tree: rc=%d' % (p, rc))
finally:
    run('git -C %s checkout -- .' % T)
    if not IN_REPO:
        run('git -C /repo worktree remove --force %s' % T)
    for p in [pid] + extra_pids:
        run('git -C %s checkout -- evidence/%s.json' % (V, p))
dst = V / 'seeded' / ('%s_%s' % (pid, name))
dst.mkdir(parents=True, exist_ok=True)
if src.resolve() != dst.resolve():
    shutil.copy(src / 'patch.diff', dst / 'patch.diff')
    shutil.copy(src / 'demo.py', dst / 'demo.py')
if (src / 'notes.md').exists():
    meta['needs'] = (src / 'notes.md').read_text()[:3000]
meta['caught_by'] = [p for p, r in meta['checks'].items() if r['rc'] == 1]
old = dst / 'meta.json'
if old.exists():        # re-evaluation after a check was strengthened: keep the first verdict (and the author's notes)
    prev = json.loads(old.read_text())
    meta['first_version'] = prev.get('first_version', 'caught')
    if not meta.get('needs') and prev.get('needs'):
        meta['needs'] = prev['needs']
else:
    meta['first_version'] = 'caught' if meta['caught_by'] else 'missed'
(dst / 'meta.json').write_text(json.dumps(meta, indent=1))
print(json.dumps({k: meta[k] for k in ('demo_clean_rc', 'demo_patched_rc', 'pinned_tests', 'all_tests', 'checks', 'caught_by')}, indent=1))
