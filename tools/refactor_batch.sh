#!/bin/bash
# tools/refactor_batch.sh C03 C06 ... : evaluate behaviour-preserving refactorings /tmp/refout_<pid>/{R1,R2} (checks must stay quiet)
cd "$(dirname "$0")/.."
for pid in "$@"; do
  low=$(echo $pid | tr 'A-Z' 'a-z')
  for v in R1 R2; do
    d=/tmp/refout_${low}/$v
    [ -f $d/patch.diff ] || { echo "$pid $v: no patch"; continue; }
    name=$(grep -m1 -i '^# ' $d/notes.md | sed 's/^# *//' | tr -c 'A-Za-z0-9\n' '_' | cut -c1-40 | sed 's/_*$//')
    python3 tools/refactor_eval.py $pid $d ${v}_$name > /tmp/ref_eval_${pid}_$v.log 2>&1
    python3 - <<PY
import json,glob
ds=glob.glob('/verif/refactors/${pid}_${v}_*')
m=json.load(open(ds[0]+'/meta.json'))
print('$pid $v', 'demo clean=%s refactored=%s tests=%s ALARM=%s' % (m['demo_clean_rc'], m.get('demo_patched_rc'), m.get('pinned_tests'), m['alarm_by']), [ (k, r['lines'][-1][:110]) for k,r in m['checks'].items()])
PY
  done
done
git -C /repo worktree prune
