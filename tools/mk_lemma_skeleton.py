#!/usr/bin/env python3
"""tools/mk_lemma_skeleton.py Cxx : write lean/PhyVerif/Lemmas/Cxx.lean with one `sorry`'d lemma per
theorem of Props/Cxx.lean (which must have the form `theorem n ... :=\n  Lemmas.n args`)."""
import re, sys
pid = sys.argv[1]
base = '/verif/lean/PhyVerif/'
src = open(base + 'Props/%s.lean' % pid).read()
body = src[src.index('namespace PhyVerif.%s' % pid):src.index('/-! Non-vacuity')]
imports = [l for l in src.split('\n') if l.startswith('import ') and 'Lemmas' not in l]
out = imports + ['/-! Helper lemmas and full proofs for %s. Statements: `Props/%s.lean`. -/' % (pid, pid),
                 'namespace PhyVerif.%s.Lemmas' % pid, 'open PhyVerif PhyVerif.%s' % pid, '']
for m in re.finditer(r'theorem (\w+)(.*?):=\n\s+Lemmas\.\w+[^\n]*\n', body, flags=re.S):
    out.append('theorem %s%s:= by\n  sorry\n' % (m.group(1), m.group(2)))
out.append('end PhyVerif.%s.Lemmas' % pid)
open(base + 'Lemmas/%s.lean' % pid, 'w').write('\n'.join(out) + '\n')
