#!/usr/bin/env python3
"""tools/mk_ref_prompt.py PID : scratch worktree of /repo + prompt file for an agent that writes behaviour-preserving refactorings
(false-alarm test; evaluated by tools/refactor_batch.sh)."""
import json, subprocess, sys
from pathlib import Path
V = Path(__file__).resolve().parent.parent
pid = sys.argv[1]
props = {json.loads(l)['id']: json.loads(l) for l in open(V / 'properties.jsonl')}
p = props[pid]
wt = '/tmp/ref_%s' % pid.lower()
out = '/tmp/refout_%s' % pid.lower()
subprocess.run(['git', '-C', '/repo', 'worktree', 'add', '-f', '--detach', wt, 'HEAD'], stdout=subprocess.DEVNULL, stderr=subprocess.DEVNULL)
Path(out).mkdir(exist_ok=True)
anchors = '; '.join('%s (%s)' % (m['name'], m.get('where')) for m in p['anchors']['mechanism'])
tmpl = (V / 'tools' / 'refactor_prompt_template.txt').read_text()
Path('/tmp/refprompt_%s.txt' % pid).write_text(
    tmpl.format(wt=wt, out=out, title=p['title'], statement=p['statement'], quant=p['quantifier']['text'], anchors=anchors))
print('/tmp/refprompt_%s.txt' % pid, wt, out)
