#!/usr/bin/env python3
"""tools/mk_mut_prompt.py PID [suffix] : create a scratch worktree of /repo and the prompt file for a bug-seeding agent."""
import json, subprocess, sys
from pathlib import Path
V = Path(__file__).resolve().parent.parent
pid = sys.argv[1]
suf = sys.argv[2] if len(sys.argv) > 2 else ''
props = {json.loads(l)['id']: json.loads(l) for l in open(V / 'properties.jsonl')}
p = props[pid]
wt = '/tmp/mut_%s%s' % (pid.lower(), suf)
out = '/tmp/mutout_%s%s' % (pid.lower(), suf)
subprocess.run(['git', '-C', '/repo', 'worktree', 'add', '-f', wt, 'HEAD'], stdout=subprocess.DEVNULL, stderr=subprocess.DEVNULL)
Path(out).mkdir(exist_ok=True)
anchors = '; '.join('%s (%s)' % (m['name'], m.get('where')) for m in p['anchors']['mechanism'])
tmpl = (V / 'tools' / 'mutation_prompt_template.txt').read_text()
extra = sys.argv[3] if len(sys.argv) > 3 else ''
Path('/tmp/prompt_%s%s.txt' % (pid, suf)).write_text(
    tmpl.format(wt=wt, out=out, title=p['title'], statement=p['statement'], quant=p['quantifier']['text'], anchors=anchors) + ('\n\n' + extra if extra else ''))
print('/tmp/prompt_%s%s.txt' % (pid, suf), wt, out)
