#!/usr/bin/env python3
"""Run every claimed check (quick or thorough), validate MANIFEST and evidence against the schemas."""
import json, os, subprocess, sys, time
from concurrent.futures import ThreadPoolExecutor
from pathlib import Path
V = Path(__file__).resolve().parent.parent
tier = sys.argv[1] if len(sys.argv) > 1 else 'quick'
seed = sys.argv[2] if len(sys.argv) > 2 else '0'
par = int(sys.argv[3]) if len(sys.argv) > 3 else 3
m = json.load(open(V / 'MANIFEST.json'))


def run(c):
    t0 = time.time()
    cmd = c['quick_cmd'] if tier == 'quick' else c['thorough_cmd']
    p = subprocess.run(cmd, shell=True, cwd=str(V), stdout=subprocess.PIPE, stderr=subprocess.STDOUT, text=True,
                       env=dict(os.environ, VERIF_SEED=seed, VERIF_TIER=tier))
    return c['property_id'], p.returncode, [l for l in p.stdout.split('\n') if l.startswith(('VIOLATION', 'KNOWN', 'INFRA', c['property_id']))], time.time() - t0


with ThreadPoolExecutor(par) as ex:
    res = list(ex.map(run, m['checks']))
bad = 0
for pid, rc, lines, dt in res:
    print(pid, 'rc=%d' % rc, '%.0fs' % dt, '|', ' | '.join(l[:150] for l in lines[-2:]))
    bad += rc != 0
val = subprocess.run(['python3-vt', '-c', '''
import json, jsonschema, glob
jsonschema.validate(json.load(open("MANIFEST.json")), json.load(open("/root/.vp/MANIFEST.schema.json")))
es = json.load(open("/root/.vp/EVIDENCE.schema.json"))
m = json.load(open("MANIFEST.json"))
for c in m["checks"]:
    e = json.load(open(c["evidence_file"]))
    jsonschema.validate(e, es)
    cov = e["coverage"]
    assert cov["obligations"] == cov["discharged"] >= 1, (c["property_id"], cov["obligations"], cov["discharged"])
print("manifest + %d evidence files valid" % len(m["checks"]))
'''], cwd=str(V), stdout=subprocess.PIPE, stderr=subprocess.STDOUT, text=True)
print(val.stdout[-600:])
sys.exit(1 if bad or val.returncode else 0)
