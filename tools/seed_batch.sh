#!/bin/bash
# ROUND=3 tools/seed_batch.sh C03 C06 ... : evaluate seeded changes /tmp/mutout_<pid>r$ROUND/{A$ROUND,B$ROUND} one after the other (default ROUND=2)
cd "$(dirname "$0")/.."
R=${ROUND:-2}
for pid in "$@"; do
  low=$(echo $pid | tr 'A-Z' 'a-z')
  for v in A$R B$R; do
    d=/tmp/mutout_${low}r$R/$v
    [ -f $d/patch.diff ] || { echo "$pid $v: no patch"; continue; }
    name=$(grep -m1 -i '^# ' $d/notes.md | sed 's/^# *//' | tr -c 'A-Za-z0-9\n' '_' | cut -c1-40 | sed 's/_*$//')
    python3 tools/seed_eval.py $pid $d ${v}_$name > /tmp/seed_eval_${pid}_$v.log 2>&1
    python3 - <<PY
import json,glob
ds=glob.glob('/verif/seeded/${pid}_${v}_*')
m=json.load(open(ds[0]+'/meta.json'))
print('$pid $v', 'clean=%s patched=%s tests=%s caught=%s' % (m['demo_clean_rc'], m.get('demo_patched_rc'), m.get('pinned_tests'), m['caught_by']), [ (k, r['lines'][-1][:110]) for k,r in m['checks'].items()])
PY
  done
done
git -C /repo status --short | head -3; git -C /repo worktree prune
