#!/bin/bash
# tools/seed_batch.sh C03 C06 ... : evaluate round-2 seeded changes /tmp/mutout_<pid>r2/{A2,B2} one after the other
cd "$(dirname "$0")/.."
for pid in "$@"; do
  low=$(echo $pid | tr 'A-Z' 'a-z')
  for v in A2 B2; do
    d=/tmp/mutout_${low}r2/$v
    [ -f $d/patch.diff ] || { echo "$pid $v: no patch"; continue; }
    name=$(grep -m1 -i '^# ' $d/notes.md | sed 's/^# *//' | tr -c 'A-Za-z0-9\n' '_' | cut -c1-40 | sed 's/_*$//')
    python3 tools/seed_eval.py $pid $d ${v}_$name > /tmp/seed_eval_${pid}_$v.log 2>&1
    python3 - <<PY
import json,glob
ds=glob.glob('/verif/seeded/${pid}_${v}_*')
m=json.load(open(ds[0]+'/meta.json'))
print('$pid $v', 'clean=%s patched=%s tests=%s caught=%s' % (m['demo_clean_rc'], m.get('demo_patched_rc'), m.get('pinned_tests'), m['caught_by']), [ (k, r['lines'][-1][:110]) for k,r in m['checks'].items()])
PY
  done
done
git -C /repo status --short | head -3
