#!/usr/bin/env python3
"""Regenerate the generated blocks of DESIGN.md §9 (theorem list, defect table, seeded-change table).

Blocks are delimited by `<!-- gen:NAME -->` / `<!-- /gen:NAME -->`; everything else is hand-written.
"""
import json, os, re, sys, glob
ROOT = os.path.dirname(os.path.dirname(os.path.abspath(__file__)))
sys.path.insert(0, ROOT)
from harness import common as C


def theorems():
    out = []
    for i in range(1, 21):
        pid = 'C%02d' % i
        ths = [t.split('.')[-1] for t in C.theorems_of(pid)]
        out.append('* **%s** (%d): %s' % (pid, len(ths), ', '.join('`%s`' % t for t in ths)))
    return '\n'.join(out)


def defects():
    kf = json.load(open(os.path.join(ROOT, 'known_findings.json')))
    rows = ['| property | commit | what failed |', '|---|---|---|']
    for e in kf:
        commit = e['commit'][:7] if e.get('status') == 'fixed' else '(open)'
        rows.append('| %s | %s | %s |' % (e['property'], commit, e['what'].replace('|', '/')))
    return '\n'.join(rows)


def summary_line(notes):
    lines = [l.strip() for l in notes.split('\n')]
    seen_h2 = False
    for l in lines:
        if l.startswith('## '):
            seen_h2 = True
            continue
        if seen_h2 and l and not l.startswith('#') and not l.startswith('```'):
            return l[:120].replace('|', '/')
    for l in lines:
        if l and not l.startswith('#'):
            return l[:120].replace('|', '/')
    return ''


def seeded():
    rows = ['| property | seeded change | caught by | first version | needs |', '|---|---|---|---|---|']
    n = 0
    for d in sorted(glob.glob(os.path.join(ROOT, 'seeded', '*'))):
        mp = os.path.join(d, 'meta.json')
        if not os.path.exists(mp):
            continue
        m = json.load(open(mp))
        n += 1
        caught = ', '.join(m.get('caught_by', [])) or 'MISSED'
        first = m.get('first_version', 'caught')
        needs = summary_line(m.get('needs') or m.get('what') or '')
        rows.append('| %s | `%s` | %s | %s | %s |' % (m.get('property', os.path.basename(d)[:3]),
                                                    os.path.basename(d), caught, first, needs))
    return '%d confirmed changes:\n\n' % n + '\n'.join(rows)


def missed():
    out, n, tot = [], 0, 0
    for d in sorted(glob.glob(os.path.join(ROOT, 'seeded', '*'))):
        mp = os.path.join(d, 'meta.json')
        if not os.path.exists(mp):
            continue
        m = json.load(open(mp))
        tot += 1
        fv = m.get('first_version', 'caught')
        if fv.startswith('missed') or fv.startswith('strengthened'):
            n += 1
            out.append('* `%s` — %s; now %s' % (os.path.basename(d), fv.replace('missed; strengthened: ', 'missed; strengthened with '),
                                             'caught by ' + ', '.join(m['caught_by']) if m.get('caught_by') else 'STILL MISSED'))
    return ('%d of the %d changes were missed by the version of the check that existed when they were written (or, in round 3, '
            'were evaluated only after the check had been strengthened from the report) and led to stronger generators/oracles '
            '(the property theorems did not change; what grew is the part of the input space on which model and code are compared):\n\n' % (n, tot)
            + '\n'.join(out))


def main():
    p = os.path.join(ROOT, 'DESIGN.md')
    s = open(p).read()
    for name, fn in (('theorems', theorems), ('defects', defects), ('seeded', seeded), ('missed', missed)):
        pat = re.compile(r'(<!-- gen:%s -->\n).*?(\n<!-- /gen:%s -->)' % (name, name), re.S)
        if not pat.search(s):
            sys.exit('marker gen:%s missing in DESIGN.md' % name)
        body = fn()
        s = pat.sub(lambda m: m.group(1) + body + m.group(2), s)
    open(p, 'w').write(s)


if __name__ == '__main__':
    main()
