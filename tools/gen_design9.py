#!/usr/bin/env python3
"""Regenerate the generated blocks of DESIGN.md §9 from the tree.

Blocks are delimited by `<!-- gen:NAME -->` / `<!-- /gen:NAME -->`; everything else is hand-written.

  modules   per property: the Lean modules (Model / Spec / Lemmas / Driver, every `Cxx<letter>.lean` included) and the
            harness files, with line counts
  theorems  names of the property theorems of `lean/PhyVerif/Props/Cxx.lean`
  defects   known_findings.json as a table
  rounds    first-verdict statistics of the seeded changes per round, from seeded/*/meta.json
  seeded    one row per seeded change
  missed    the changes whose first verdict was not `caught`, and what they are now
"""
import json, os, re, sys, glob
ROOT = os.path.dirname(os.path.dirname(os.path.abspath(__file__)))
sys.path.insert(0, ROOT)
from harness import common as C

LEAN = os.path.join(ROOT, 'lean', 'PhyVerif')


def _lines(p):
    with open(p, errors='replace') as f:
        return sum(1 for _ in f)


def modules():
    out = []
    tot = dict(Model=0, Spec=0, Lemmas=0, Props=0, Driver=0)
    for i in range(1, 21):
        pid = 'C%02d' % i
        parts = []
        for sub in ('Model', 'Spec', 'Lemmas', 'Driver'):
            fs = sorted(glob.glob(os.path.join(LEAN, sub, pid + '*.lean')))
            if fs:
                n = sum(_lines(f) for f in fs)
                tot[sub] += n
                parts.append('%s: %s (%d)' % (sub, ', '.join('`%s`' % os.path.basename(f)[:-5] for f in fs), n))
        tot['Props'] += _lines(os.path.join(LEAN, 'Props', pid + '.lean'))
        h = os.path.join(ROOT, 'harness', 'prop_%s.py' % pid.lower())
        parts.append('harness: `prop_%s.py` (%d)' % (pid.lower(), _lines(h)))
        out.append('* **%s** — %s' % (pid, '; '.join(parts)))
    shared = []
    for sub in ('Model', 'Lemmas', 'Driver'):
        for f in sorted(glob.glob(os.path.join(LEAN, sub, '*.lean'))):
            if not re.match(r'C\d\d', os.path.basename(f)):
                shared.append('`%s/%s` (%d)' % (sub, os.path.basename(f)[:-5], _lines(f)))
    hs = ['`%s` (%d)' % (os.path.basename(f), _lines(f)) for f in sorted(glob.glob(os.path.join(ROOT, 'harness', '*.py')))
          if not os.path.basename(f).startswith('prop_') and os.path.basename(f) != '__init__.py']
    out.append('* shared — Lean: %s; harness: %s' % (', '.join(shared), ', '.join(hs)))
    out.append('* lines of Lean per kind (per-property modules): ' + ', '.join('%s %d' % kv for kv in tot.items()))
    return '\n'.join(out)


def theorems():
    out, tot = [], 0
    for i in range(1, 21):
        pid = 'C%02d' % i
        ths = [t.split('.')[-1] for t in C.theorems_of(pid)]
        tot += len(ths)
        out.append('* **%s** (%d): %s' % (pid, len(ths), ', '.join('`%s`' % t for t in ths)))
    return '%d property theorems:\n\n' % tot + '\n'.join(out)


def defects():
    kf = json.load(open(os.path.join(ROOT, 'known_findings.json')))
    nf = sum(e.get('status') == 'fixed' for e in kf)
    rows = ['| property | commit | what failed |', '|---|---|---|']
    for e in kf:
        commit = e['commit'][:7] if e.get('status') == 'fixed' else '(open)'
        rows.append('| %s | %s | %s |' % (e['property'], commit, e['what'].replace('|', '/')))
    return '%d repaired (`fixed`), %d open:\n\n' % (nf, len(kf) - nf) + '\n'.join(rows)


def summary_line(notes):
    lines = [l.strip() for l in notes.split('\n')]
    seen_h2 = False
    for l in lines:
        if l.startswith('## '):
            seen_h2 = True
            continue
        if seen_h2 and l and not l.startswith('#') and not l.startswith('```'):
            return l[:120].replace('|', '/')
    for l in lines:
        if l and not l.startswith('#'):
            return l[:120].replace('|', '/')
    return ''


def need_line(notes, n=230):
    """the start of the 'what is needed for it to manifest' section of a report"""
    m = re.search(r'^#+\s*(?:what (?:is|it) need[^\n]*|needs[^\n]*)\n(.*?)(?=\n#+ |\Z)', notes, re.S | re.I | re.M)
    if not m:
        return ''
    t = re.sub(r'\s+', ' ', m.group(1).replace('|', '/')).strip()
    return t[:n] + ('…' if len(t) > n else '')


def metas():
    out = []
    for d in sorted(glob.glob(os.path.join(ROOT, 'seeded', '*'))):
        mp = os.path.join(d, 'meta.json')
        if not os.path.exists(mp):
            continue
        b = os.path.basename(d)
        mm = re.match(r'(C\d\d)_([AB])(\d*)_', b)
        rnd = int(mm.group(3) or 1) if mm else 0
        out.append((rnd, b, json.load(open(mp))))
    return out


def kind(m):
    fv = m.get('first_version', 'caught')
    return 'missed' if fv.startswith('missed') else 'strengthened' if fv.startswith('strengthened') else 'caught'


def rounds():
    ms = metas()
    rows = ['| round | changes | caught by the check as it was | check strengthened from the report before the first evaluation | missed by the check as it was | not caught at the last evaluation |',
            '|---|---|---|---|---|---|']
    tot = [0, 0, 0, 0, 0]
    for r in sorted({x[0] for x in ms}):
        sel = [m for rr, _, m in ms if rr == r]
        c = [len(sel)] + [sum(kind(m) == k for m in sel) for k in ('caught', 'strengthened', 'missed')] + \
            [sum(not m.get('caught_by') for m in sel)]
        tot = [a + b for a, b in zip(tot, c)]
        rows.append('| %d | %s |' % (r, ' | '.join(str(x) for x in c)))
    rows.append('| all | %s |' % ' | '.join(str(x) for x in tot))
    return '\n'.join(rows)


def seeded():
    rows = ['| property | round | seeded change | caught by | first version | needs |', '|---|---|---|---|---|---|']
    n = 0
    for rnd, b, m in metas():
        n += 1
        caught = ', '.join(m.get('caught_by', [])) or 'MISSED'
        first = m.get('first_version', 'caught')
        needs = summary_line(m.get('needs') or m.get('what') or '')
        rows.append('| %s | %d | `%s` | %s | %s | %s |' % (m.get('property', b[:3]), rnd, b, caught, first, needs))
    return '%d confirmed changes:\n\n' % n + '\n'.join(rows)


def missed():
    out, n, tot = [], 0, 0
    for rnd, b, m in metas():
        tot += 1
        fv = m.get('first_version', 'caught')
        if kind(m) != 'caught':
            n += 1
            now = 'caught by ' + ', '.join(m['caught_by']) if m.get('caught_by') else 'NOT CAUGHT at the last evaluation recorded in its meta.json'
            what = fv.replace('missed; strengthened: ', 'missed; strengthened with ')
            if fv.strip() == 'missed':
                nl = need_line(m.get('needs') or '')
                if nl:
                    what = 'missed; it needs: ' + nl
            out.append('* `%s` (round %d) — %s; now %s' % (b, rnd, what, now))
    return ('%d of the %d changes were not caught by the version of the check that existed when they were written: they were missed by it, or '
            '(rounds 3–5) were evaluated only after the check had been strengthened from the report. Each led to stronger generators/oracles '
            '(the property theorems did not change because of them; what grew is the part of the input space on which model and code are compared). '
            'For rounds 6 and 7 the meta.json records only `missed`; the line then quotes what the change needs in order to show, which is what '
            'the generators were given afterwards:\n\n' % (n, tot)
            + '\n'.join(out))


def refactors():
    rows = ['| property | refactoring | demo clean / refactored | pinned tests | verdict of `./check` on the refactored tree | what was rewritten |', '|---|---|---|---|---|---|']
    n = alarms = 0
    for d in sorted(glob.glob(os.path.join(ROOT, 'refactors', '*'))):
        mp = os.path.join(d, 'meta.json')
        if not os.path.exists(mp):
            continue
        m = json.load(open(mp))
        n += 1
        al = m.get('alarm_by') or []
        alarms += bool(al)
        last = '; '.join('%s rc=%s (%s)' % (k, r['rc'], (r['lines'][-1] if r['lines'] else '')[:90]) for k, r in m.get('checks', {}).items())
        rows.append('| %s | `%s` | %s / %s | %s | %s | %s |' % (
            m.get('property'), os.path.basename(d), m.get('demo_clean_rc'), m.get('demo_patched_rc'), (m.get('pinned_tests') or '')[:24],
            ('**ALARM** ' if al else 'quiet: ') + last, summary_line(m.get('needs') or '')))
    return '%d behaviour-preserving refactorings evaluated, %d raised an alarm at the last evaluation:\n\n' % (n, alarms) + '\n'.join(rows)


def coverage():
    rows = ['| property | executable lines of the anchored functions | executed in the last committed quick run | functions with lines never executed |', '|---|---|---|---|']
    for i in range(1, 21):
        pid = 'C%02d' % i
        try:
            c = json.load(open(os.path.join(ROOT, 'evidence', pid + '.json')))['coverage'].get('code_coverage')
        except Exception:
            c = None
        if not isinstance(c, dict):
            rows.append('| %s | - | not measured | |' % pid)
            continue
        miss = ['`%s` %s' % (k.split('::')[-1], v['never_executed'][:12]) for k, v in c['functions'].items()
                if isinstance(v, dict) and v.get('never_executed')]
        rows.append('| %s | %d | %d (%s %%) | %s |' % (pid, c['executable_lines'], c['executed_lines'], c['percent'], '; '.join(miss)[:600]))
    return '\n'.join(rows)


def main():
    p = os.path.join(ROOT, 'DESIGN.md')
    s = open(p).read()
    for name, fn in (('modules', modules), ('theorems', theorems), ('defects', defects), ('rounds', rounds),
                     ('seeded', seeded), ('missed', missed), ('refactors', refactors), ('coverage', coverage)):
        pat = re.compile(r'(<!-- gen:%s -->\n)(?:.*?\n)??(<!-- /gen:%s -->)' % (name, name), re.S)
        if not pat.search(s):
            sys.exit('marker gen:%s missing in DESIGN.md' % name)
        body = fn()
        s = pat.sub(lambda m: m.group(1) + body + '\n' + m.group(2), s)
    open(p, 'w').write(s)


if __name__ == '__main__':
    main()
